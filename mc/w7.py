"""World W7 = W1 + a file archive, a git source with a local upstream repository (live build-id predictions), a
fingerprinted package whose fingerprint script prints an emulated host id.  Everything that enters ids (urls, paths
of the archive / upstream / host id file) is identical for all workspaces of one universe."""
import os, subprocess
from . import w1

GITENV = {'GIT_AUTHOR_NAME': 'u', 'GIT_AUTHOR_EMAIL': 'u@x', 'GIT_COMMITTER_NAME': 'u', 'GIT_COMMITTER_EMAIL': 'u@x',
          'GIT_AUTHOR_DATE': '2020-01-01T00:00:00+0000', 'GIT_COMMITTER_DATE': '2020-01-01T00:00:00+0000', 'GIT_CONFIG_NOSYSTEM': '1',
          'PATH': '/usr/local/bin:/usr/bin:/bin', 'HOME': '/root'}


def git(cwd, *args):
    r = subprocess.run(['git'] + list(args), cwd=cwd, env=GITENV, stdout=subprocess.PIPE, stderr=subprocess.STDOUT, text=True)
    assert r.returncode == 0, (args, r.stdout)
    return r.stdout


def make_universe(base):
    """upstream bare repository with one commit, host id file"""
    os.makedirs(base, exist_ok=True)
    work = os.path.join(base, 'upstream-work')
    os.makedirs(work)
    git(work, 'init', '-q', '-b', 'master')
    with open(os.path.join(work, 'g.txt'), 'w') as f: f.write('g-v0\n')
    git(work, 'add', '.'); git(work, 'commit', '-q', '-m', 'c0')
    git(base, 'clone', '-q', '--bare', work, os.path.join(base, 'upstream.git'))
    set_host(base, 'hostA')


def upstream_commit(base, n):
    work = os.path.join(base, 'upstream-work')
    with open(os.path.join(work, 'g.txt'), 'w') as f: f.write('g-v%d\n' % n)
    git(work, 'commit', '-q', '-am', 'c%d' % n)
    git(work, 'push', '-q', os.path.join(base, 'upstream.git'), 'master')


def set_host(base, name):
    with open(os.path.join(base, 'hostfp'), 'w') as f: f.write(name + '\n')


def files(v, base):
    f = w1.files(v)
    f['default.yaml'] += 'archive:\n    backend: file\n    path: "%s"\n' % os.path.join(base, 'archive')
    f['recipes/gsrc.yaml'] = ('inherit: [base]\n'
                              'checkoutSCM:\n    scm: git\n    url: "file://%s"\n    branch: master\n'
                              'buildScript: |\n    vlog "gsrc build"\n    { echo gsrc-build; reveal "$1"; } > result.txt\n'
                              'packageScript: |\n    vlog "gsrc package"\n    { echo gsrc-pkg; reveal "$1"; } > result.txt\n') % os.path.join(base, 'upstream.git')
    f['recipes/fpk.yaml'] = ('inherit: [base]\n'
                             'fingerprintIf: True\nfingerprintVars: [FPFILE]\nfingerprintScript: |\n    cat "$FPFILE"\n'
                             'buildVars: [FPFILE]\n'
                             'buildScript: |\n    vlog "fpk build"\n    { echo "fpk built on $(< "$FPFILE")"; } > result.txt\n'
                             'packageScript: |\n    vlog "fpk package"\n    { echo fpk-pkg; reveal "$1"; } > result.txt\n')
    f['recipes/app.yaml'] = f['recipes/app.yaml'].replace("depends:\n", "depends:\n    - gsrc\n    - fpk\n", 1)
    # lib uses two tools: the strong one (gen) and a weak one whose name sorts before it but which is provided after it
    f['recipes/aw.yaml'] = ('inherit: [base]\nbuildScript: |\n    vlog "aw build"\n    mkdir -p wbin\n    printf \'#!/bin/sh\\necho aweak\\n\' > wbin/aweak\n    chmod +x wbin/aweak\n'
                            'packageScript: |\n    vlog "aw package"\n    cp -a "$1"/wbin .\nprovideTools:\n    aweak: "wbin"\n')
    assert '    - name: gen\n      use: [tools]\n      forward: True\n' in f['recipes/root.yaml']
    f['recipes/root.yaml'] = f['recipes/root.yaml'].replace('    - name: gen\n      use: [tools]\n      forward: True\n',
                                                            '    - name: gen\n      use: [tools]\n      forward: True\n    - name: aw\n      use: [tools]\n      forward: True\n    - dl\n', 1)
    assert 'buildTools: [gen]\n' in f['recipes/lib.yaml']
    f['recipes/lib.yaml'] = f['recipes/lib.yaml'].replace('buildTools: [gen]\n', 'buildTools: [gen]\nbuildToolsWeak: [aweak]\n', 1)
    if v.get('toolscript'):
        f['recipes/gen.yaml'] = f['recipes/gen.yaml'].replace('gen-from-bin', 'gen-v1-from-bin')
    # the url source of dl is declared deterministic but its checkout script is not (a whitelisted host variable leaks in):
    # live build-id predictions for it can turn out wrong
    assert "      dir: ar\n" in f['recipes/dl.yaml']
    f['recipes/dl.yaml'] = f['recipes/dl.yaml'].replace("      dir: ar\n", "      dir: ar\ncheckoutDeterministic: True\ncheckoutScript: |\n    echo \"flavour ${VERIF_NONCE:-none}\" > flavour.txt\n", 1)
    return f


def args(v, base):
    return w1.args(v, os.path.join(base, 'dl')) + ['-DFPFILE=' + os.path.join(base, 'hostfp')]
