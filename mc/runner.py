"""Runner glue shared by all checks: repo import path, evidence files, replay files,
known findings, VIOLATION lines, scratch directories, a parallel map."""
import os, sys, json, time, hashlib, fnmatch, shutil, atexit, tempfile, traceback, multiprocessing

VERIF = os.path.dirname(os.path.dirname(os.path.abspath(__file__)))
REPO = os.environ.get('VERIF_REPO', '/repo')
PYM = os.path.join(REPO, 'pym')
NCPU = int(os.environ.get('VERIF_JOBS', str(min(16, os.cpu_count() or 1))))


def use_repo():
    """Make `import bob` resolve to the tree under test (working tree, not a snapshot)."""
    if sys.path[0] != PYM:
        sys.path.insert(0, PYM)
    os.environ['PYTHONPATH'] = PYM
    import bob  # noqa
    assert os.path.realpath(bob.__file__).startswith(os.path.realpath(PYM)), bob.__file__


_scratch = None


def scratch():
    """Per-process scratch root on tmpfs, removed at exit."""
    global _scratch
    if _scratch is None or _scratch[0] != os.getpid():
        base = os.environ.get('VERIF_SCRATCH') or ('/dev/shm' if os.path.isdir('/dev/shm') and os.access('/dev/shm', os.W_OK) else tempfile.gettempdir())
        d = tempfile.mkdtemp(prefix='verif-%d-' % os.getpid(), dir=base)
        _scratch = (os.getpid(), d)
        atexit.register(_rm, os.getpid(), d)
    return _scratch[1]


def _rm(pid, d):
    if os.getpid() == pid:
        shutil.rmtree(d, ignore_errors=True)


def pmap(fn, items, jobs=None, chunksize=1, initializer=None, initargs=()):
    """Ordered parallel map with fork workers (results must be picklable)."""
    jobs = jobs or NCPU
    items = list(items)
    if jobs <= 1 or len(items) <= 1:
        if initializer: initializer(*initargs)
        return [fn(i) for i in items]
    ctx = multiprocessing.get_context('fork')
    with ctx.Pool(min(jobs, len(items)), initializer=initializer, initargs=initargs) as pool:
        return pool.map(fn, items, chunksize)


def pmap_unordered(fn, items, jobs=None, chunksize=1):
    jobs = jobs or NCPU
    ctx = multiprocessing.get_context('fork')
    with ctx.Pool(jobs) as pool:
        for r in pool.imap_unordered(fn, items, chunksize):
            yield r


def load_known():
    p = os.path.join(VERIF, 'known_findings.json')
    if not os.path.exists(p):
        return []
    return json.load(open(p)).get('findings', [])


class Ctx:
    """One check run."""

    def __init__(self, pid, tier, seed, level='model_checking'):
        self.pid, self.tier, self.seed, self.level = pid, tier, seed, level
        self.t0 = time.time()
        self.known = [k for k in load_known() if k['property'] == pid and k.get('status', 'open') == 'open']
        self.known_hit = {}
        self.viol = {}          # key -> (what, replay path)
        self.cov = {}
        self.assumptions = []
        self.replay_dir = os.path.join(VERIF, 'replays', pid)
        self.notes = []

    # ---------------------------------------------------------------- reporting
    def log(self, *a):
        print('[%s %6.1fs]' % (self.pid, time.time() - self.t0), *a, flush=True)

    def violation(self, key, what, replay, instance=None):
        """Report one violation. `key` names the failing input class / call site / history
        shape; identical keys are reported once (first = smallest, as search is simplest-first).
        A known finding whose entry carries `instances_file` only covers the inputs listed in that
        committed file: the same kind of failure on any other input is a violation of its own."""
        for k in self.known:
            if fnmatch.fnmatchcase(key, k['key']):
                if k.get('instances_file'):
                    if instance is None or hashlib.sha1(instance.encode()).hexdigest()[:12] not in self._instances(k):
                        key = key + ':input-not-in-known-list'
                        break
                if k['key'] not in self.known_hit:
                    self.known_hit[k['key']] = (k, what, replay)
                return False
        if key in self.viol:
            self.viol[key][2] += 1
            return True
        os.makedirs(self.replay_dir, exist_ok=True)
        body = dict(property=self.pid, key=key, what=what, replay=replay)
        blob = json.dumps(body, sort_keys=True, indent=1, default=repr)
        path = os.path.join(self.replay_dir, hashlib.sha1(blob.encode()).hexdigest()[:12] + '.json')
        with open(path, 'w') as f:
            f.write(blob)
        self.viol[key] = [what, path, 1]
        self.log('violation', key, '-', what)
        return True

    def _instances(self, k):
        cache = self.__dict__.setdefault('_inst_cache', {})
        f = k['instances_file']
        if f not in cache:
            with open(os.path.join(VERIF, f)) as fh:
                cache[f] = {l.rstrip('\n') for l in fh if l.strip() and not l.startswith('#')}
        return cache[f]

    def finish(self, coverage, assumptions=()):
        wall = time.time() - self.t0
        cov = dict(coverage)
        cov.setdefault('samples', [])
        ev = dict(property_id=self.pid, tier=self.tier, seed=self.seed, level=self.level,
                  coverage=cov, assumptions=list(assumptions) + self.assumptions,
                  wall_s=round(wall, 2), violations=len(self.viol),
                  known_findings_seen=sorted(self.known_hit),
                  repo=REPO)
        evdir = os.environ.get('VERIF_EVIDENCE_DIR') or os.path.join(VERIF, 'evidence')
        os.makedirs(evdir, exist_ok=True)
        path = os.path.join(evdir, self.pid + '.json')
        with open(path + '.tmp', 'w') as f:
            json.dump(ev, f, indent=1, sort_keys=True, default=repr)
        os.replace(path + '.tmp', path)
        for key, (k, what, replay) in sorted(self.known_hit.items()):
            print('KNOWN-FINDING: property=%s %s [%s] e.g. %s' % (self.pid, k['what'], key, what), flush=True)
        for key, (what, rp, n) in sorted(self.viol.items()):
            print('VIOLATION property=%s replay=%s' % (self.pid, rp), flush=True)
            print('  key=%s count=%d: %s' % (key, n, what), flush=True)
        self.log('done: %d violation key(s), %d known finding(s), wall %.1fs; coverage: %s' % (
            len(self.viol), len(self.known_hit), wall,
            {k: v for k, v in cov.items() if isinstance(v, (int, bool))}))
        return 1 if self.viol else 0


def cleanup_semaphores(t0):
    """SIGKILLed Bob processes leak multiprocessing semaphores in /dev/shm; remove those created since t0."""
    n = 0
    try:
        for f in os.listdir('/dev/shm'):
            if f.startswith('sem.mp-'):
                p = os.path.join('/dev/shm', f)
                try:
                    # only leaked ones: a live Python process unlinks its semaphore microseconds after creating it, and a
                    # concurrently running check must not lose one in that window (seen once as a false build failure)
                    if t0 - 1 <= os.stat(p).st_mtime < time.time() - 20:
                        os.unlink(p); n += 1
                except OSError:
                    pass
    except OSError:
        pass
    return n
