"""C06 builder harness: real LocalBuilder.cook on real parsed projects under the virtual loop.

Only LocalBuilder._runShell is replaced: the stub logs `start`, awaits a harness future (the
external event "script finished"), then writes the step's deterministic result (a function of
its own name and the results of its arguments) or raises the BuildError a failing script gives.
Everything else - task tables, workspace locks, JobServer/InternalJobServer FIFO,
JobServerSemaphore, BobState, audit, hashing - is the real code.
"""
import os, sys, asyncio, shutil, io, contextlib, hashlib
from .. import runner, e3

SHAPES = {
    # name: (recipes {name: deps}, roots, tools {consumer: provider})
    'chain': ({'root': ['a'], 'a': ['b'], 'b': []}, ['root'], {}),
    'diamond': ({'root': ['a', 'b'], 'a': ['c'], 'b': ['c'], 'c': []}, ['root'], {}),
    'tworoots': ({'r1': ['c'], 'r2': ['c', 'd'], 'c': [], 'd': []}, ['r1', 'r2'], {}),
    'fanout': ({'root': ['a', 'b', 'c', 'd'], 'a': [], 'b': [], 'c': [], 'd': []}, ['root'], {}),
    'tool': ({'root': ['a'], 'a': [], 't': []}, ['root'], {'a': 't', 'root': 't'}),
    'deep': ({'root': ['a', 'x'], 'a': ['b'], 'b': ['c'], 'x': ['c'], 'c': []}, ['root'], {}),
    'fan3': ({'root': ['a', 'b', 'c'], 'a': [], 'b': [], 'c': []}, ['root'], {}),
    'multi': ({'root': ['m-p1', 'm-p2']}, ['root'], {}),          # two packages of one recipe share the checkout
    # one package (indeterministic checkout) reached under two different sandboxes: one workspace, two cook tasks
    'twosbx': ({'root': ['a', 'b'], 'a': ['lib'], 'b': ['lib'], 'lib': [], 's1': [], 's2': []}, ['root'], {}, {'a': 's1', 'b': 's2'}),
}


def write_project(d, shape):
    recipes, roots, tools = SHAPES[shape][:3]
    sandboxes = SHAPES[shape][3] if len(SHAPES[shape]) > 3 else {}
    os.makedirs(os.path.join(d, 'recipes'))
    with open(os.path.join(d, 'config.yaml'), 'w') as f:
        f.write('bobMinimumVersion: "0.25"\n')
    for name, deps in recipes.items():
        lines = []
        if name in roots: lines.append('root: True')
        dl = []
        if name in sandboxes:
            dl.append('    - name: %s\n      use: [sandbox]\n      forward: True' % sandboxes[name])
        for dep in deps:
            dl.append('    - %s' % dep)
        if name in tools:
            dl.append('    - name: %s\n      use: [tools]' % tools[name])
            lines.append('buildTools: [tt]')
        if dl: lines.append('depends:\n' + '\n'.join(dl))
        lean = len(SHAPES[shape]) > 3          # lean shapes: only `lib` has a checkout, the sandbox images have no build script (keeps the schedule space small)
        if not name.startswith('lib'): lines.append('checkoutDeterministic: True')
        if name in sandboxes.values(): lines.append('provideSandbox:\n    paths: ["/bin"]')
        if not lean or name.startswith('lib'): lines.append('checkoutScript: |\n    echo src-%s > src.txt' % name)
        if not lean or name not in sandboxes.values(): lines.append('buildScript: |\n    echo build-%s > out.txt' % name)
        lines.append('packageScript: |\n    echo pkg-%s > pkg.txt' % name)
        if name == 't':
            lines.append('provideTools:\n    tt: "."')
        with open(os.path.join(d, 'recipes', name + '.yaml'), 'w') as f:
            f.write('\n'.join(lines) + '\n')
    if shape == 'multi':
        with open(os.path.join(d, 'recipes', 'm.yaml'), 'w') as f:
            f.write('checkoutDeterministic: True\ncheckoutScript: |\n    echo src-m > src.txt\n'
                    'multiPackage:\n'
                    '    p1:\n        buildScript: |\n            echo b1 > out.txt\n        packageScript: |\n            echo p1 > pkg.txt\n'
                    '    p2:\n        buildScript: |\n            echo b2 > out.txt\n        packageScript: |\n            echo p2 > pkg.txt\n')
    return roots


def short(name):
    return name.split(':')[0].split('/')[-1] + ':' + name.split(':')[1]


class BuilderWorld(e3.World):
    def __init__(self, shape, jobs, keepgoing, fail, root):
        self.shape, self.jobs, self.keepgoing, self.fail = shape, jobs, keepgoing, fail
        self.root = root
        self.problems = []
        self.waiting = {}
        self.order = []
        self.running = {}
        self.events = []        # ('start'|'end'|'fail', stepname, workspace)
        self.started_ws = {}
        self.ended_ok = set()
        self.failed_at = None
        self.fail_seen_boundary = None
        self.token_check = None
        self.deps = {}
        self.exec = None

    # --- stub for LocalBuilder._runShell
    def make_stub(self):
        w = self
        from bob.errors import BuildError

        async def stub(self_, step, scriptName, logger, workspaceCreated, cleanWorkspace=None, mode=None):
            ws = step.getWorkspacePath()
            os.makedirs(ws, exist_ok=True)
            name = '/'.join(step.getPackage().getStack()) + ':' + step.getLabel()
            w.on_start(name, ws, step)
            fut = asyncio.get_event_loop().create_future()
            w.waiting[name] = fut
            w.order.append(name)
            try:
                await fut
            finally:
                w.running.pop(name, None)
            if w.fail is not None and short(name) == w.fail:
                w.events.append(('fail', name, ws))
                w.failed_at = len(w.exec.choices)
                with open(os.path.join(ws, 'partial'), 'w') as f: f.write('partial')
                raise BuildError('script returned with 1', returncode=1)
            # deterministic result: own identity + results of all arguments
            h = [name.split(':')[0].split('/')[-1] + ':' + step.getLabel()]
            for a in step.getArguments():
                if a.isValid():
                    p = os.path.join(a.getWorkspacePath(), 'result')
                    h.append(open(p).read() if os.path.exists(p) else 'MISSING(%s)' % a.getWorkspacePath())
            with open(os.path.join(ws, 'result'), 'w') as f:
                f.write(hashlib.sha1('\n'.join(h).encode()).hexdigest() + ' ' + h[0] + '\n')
            w.events.append(('end', name, ws))
            w.ended_ok.add(name)
        return stub

    def on_start(self, name, ws, step):
        self.events.append(('start', name, ws))
        # M2 once only / exclusive
        if ws in self.started_ws:
            self.problems.append(('workspace-executed-twice', '%s started again in %s (first as %s)' % (name, ws, self.started_ws[ws])))
        self.started_ws[ws] = name
        if ws in self.running.values():
            self.problems.append(('workspace-shared-by-two-jobs', '%s starts in %s while another job runs there' % (name, ws)))
        self.running[name] = ws
        # M3 budget
        if len(self.running) > self.jobs:
            self.problems.append(('over-budget', '%d steps run concurrently with -j%d: %s' % (len(self.running), self.jobs, sorted(self.running))))
        # M1 dependencies finished successfully
        need = []
        pkg = step.getPackage()
        if step.isBuildStep() and pkg.getCheckoutStep().isValid(): need.append(pkg.getCheckoutStep())
        if step.isPackageStep() and pkg.getBuildStep().isValid(): need.append(pkg.getBuildStep())
        for a in step.getArguments():
            if a.isValid() and a.getPackage() != pkg: need.append(a)
        for t in step.getTools().values():
            need.append(t.getStep())
        if step.getSandbox() is not None:
            need.append(step.getSandbox().getStep())
        for n in need:
            nn = '/'.join(n.getPackage().getStack()) + ':' + n.getLabel()
            # the same workspace may have been produced under another stack name (identical package on two paths)
            if not any(e[0] == 'end' and e[2] == n.getWorkspacePath() for e in self.events):
                self.problems.append(('started-before-dependency-finished', '%s started although %s has not finished successfully' % (name, nn)))
        # M4 failure confinement: once the builder has taken notice of a failure (it cleared its running flag) and does not
        # keep going, no further step may be started
        b = getattr(self, 'builder', None)
        if b is not None and not self.keepgoing and self.failed_at is not None and getattr(b, '_LocalBuilder__running', True) is False:
            self.problems.append(('start-after-failure:builder-stopped', '%s started although the builder had already stopped because of the failure of %s' % (name, self.fail)))
        if self.failed_at is not None:
            if not self.keepgoing:
                if self.fail_seen_boundary is not None and len(self.exec.choices) > self.fail_seen_boundary:
                    self.problems.append(('start-after-failure', '%s started after the failure of %s had been processed' % (name, self.fail)))

    def pending(self):
        return [n for n in self.order if n in self.waiting and not self.waiting[n].done()]

    def complete(self, name):
        f = self.waiting.pop(name)
        self.order.remove(name)
        if self.fail is not None and short(name) == self.fail:
            # the failure counts as processed once the loop went quiescent after this delivery
            self.fail_pending = True
        f.set_result(None)

    def finished(self):
        return False

    def teardown(self):
        pass


_parsed = {}


def one_execution(w, loop):
    """Parse the project, set up LocalBuilder like `bob dev` does and cook the roots."""
    import bob.builder as bb
    from bob.input import RecipeSet
    from bob.cmds.build.build import ExecutableStep, LazyIR
    from bob.cmds.build.state import DevelopDirOracle
    from bob.invoker import JobserverConfig
    from bob.tty import setVerbosity
    import bob.state
    d = w.root
    shutil.rmtree(d, ignore_errors=True)
    os.makedirs(d)
    roots = write_project(d, w.shape)
    os.chdir(d)
    setVerbosity(-2)
    bb.LocalBuilder._runShell = w.make_stub()
    # token conservation: look into the FIFO just before the job server shuts down
    orig_shutdown = bb.InternalJobServer.shutdown

    def shutdown(self_):
        rfd, wfd = self_.getMakeFd()
        n = 0
        try:
            while True:
                b = os.read(rfd, 64)
                if not b: break
                n += len(b)
        except BlockingIOError:
            pass
        w.token_check = n
        return orig_shutdown(self_)
    bb.InternalJobServer.shutdown = shutdown
    try:
        recipes = RecipeSet()
        recipes.defineHook('releaseNameFormatter', bb.LocalBuilder.releaseNameFormatter)
        recipes.defineHook('developNameFormatter', bb.LocalBuilder.developNameFormatter)
        recipes.defineHook('developNamePersister', None)
        recipes.parse({})
        nameFormatter = recipes.getHook('developNameFormatter')
        persister = DevelopDirOracle(nameFormatter, recipes.getHook('developNamePersister'))
        nameFormatter = bb.LocalBuilder.makeRunnable(persister.getFormatter())
        packages = recipes.generatePackages(nameFormatter, len(SHAPES[w.shape]) > 3, False)
        persister.prime(packages)
        builder = bb.LocalBuilder(-2, False, False, False, False, recipes.envWhiteList(), '/repo/bob', False, True)
        w.builder = builder
        builder.setJobserverConfig(JobserverConfig(w.jobs))
        builder.setKeepGoing(w.keepgoing)
        builder.setAudit(True)
        if w.jobs > 1: builder.enableBufferedIO()
        backlog = []
        for r in roots:
            for p in packages.queryPackagePath(r):
                backlog.append(p.getPackageStep())
        w.all_steps = {}
        builder.cook([ExecutableStep.fromStep(b, LazyIR) for b in backlog], False, loop)
    finally:
        bb.InternalJobServer.shutdown = orig_shutdown
        bob.state.finalize()


def tree_result(d):
    """final contents of all dist/build/src workspaces (result files only)"""
    res = {}
    for dp, dn, fn in os.walk(os.path.join(d, 'dev')):
        if 'result' in fn and os.path.basename(dp) == 'workspace':
            res[os.path.relpath(dp, d)] = open(os.path.join(dp, 'result')).read()
    return res


def builder_job(job):
    shape, jobs, keepgoing, fail, bound, limit = job
    from bob.errors import BuildError, BobError
    root = os.path.join(runner.scratch(), 'c06b')
    stats = dict(execs=0, iters=0, viol=[], outcomes=set(), capped=False, sample=None, maxrun=0)
    ref = {}

    def make():
        return BuilderWorld(shape, jobs, keepgoing, fail, root)

    def directed(w, loop):
        w.exec = loop.director
        # processed-failure marker: after delivering the failing completion the loop runs to quiescence;
        # from the next boundary with an empty ready queue on, the failure counts as processed
        orig_boundary = loop.director.boundary

        def boundary(lp):
            if getattr(w, 'fail_pending', False) and lp.ready_count() == 0 and w.fail_seen_boundary is None:
                w.fail_seen_boundary = len(loop.director.choices)
            return orig_boundary(lp)
        loop.director.boundary = boundary
        buf = io.StringIO()
        with contextlib.redirect_stdout(buf), contextlib.redirect_stderr(buf):
            return one_execution(w, loop)

    def check(x, w):
        stats['execs'] += 1; stats['iters'] += len(x.choices)
        probs = list(w.problems) + list(x.problems)
        stats['maxrun'] = max(stats['maxrun'], max([0] + [sum(1 for e in w.events[:i + 1] if e[0] == 'start') - sum(1 for e in w.events[:i + 1] if e[0] in ('end', 'fail')) for i in range(len(w.events))]))
        if x.exc is not None:
            if fail is not None and isinstance(x.exc, BobError):
                pass
            else:
                probs.append(('cook-raises:' + type(x.exc).__name__, 'cook() raised %s: %s' % (type(x.exc).__name__, str(x.exc)[:150])))
        elif fail is not None and not x.problems:
            if any(e[0] == 'fail' for e in w.events):
                probs.append(('failure-swallowed', 'step %s failed but cook() returned normally' % fail))
        res = tree_result(root)
        if fail is None and x.exc is None and not x.problems:
            # M5: same results as the reference (first execution of jobs=1 default schedule is computed by the caller)
            key = 'ref'
            if key not in ref: ref[key] = reference(shape)
            if res != ref[key]:
                diff = sorted(set(res.items()) ^ set(ref[key].items()))[:3]
                probs.append(('result-differs-from-sequential', 'final workspace contents differ from the sequential build: %s' % diff))
            if jobs > 1 and w.token_check is not None and w.token_check != jobs:
                probs.append(('token-conservation', 'job server FIFO holds %d tokens at shutdown, %d were put in' % (w.token_check, jobs)))
        if fail is not None and not x.problems:
            must, forbidden = keepgoing_expect(shape, fail)
            got = {e[1].split(':')[0].split('/')[-1] + ':' + e[1].split(':')[1] for e in w.events if e[0] == 'end'}
            started = {e[1].split(':')[0].split('/')[-1] + ':' + e[1].split(':')[1] for e in w.events if e[0] == 'start'}
            if started & forbidden:
                probs.append(('dependent-of-failed-step-started', 'although %s failed, dependent steps %s were started' % (fail, sorted(started & forbidden))))
            if keepgoing and not must <= got:
                probs.append(('keep-going-missed-independent', 'with keep-going and %s failing the independent steps %s were not built' % (fail, sorted(must - got))))
        for ctx in x.loop._exc:
            probs.append(('loop-exception', str(ctx.get('exception') or ctx.get('message'))[:120]))
        stats['outcomes'].add(tuple(e[:2] for e in w.events))
        if stats['sample'] is None and len(w.events) > 4:
            stats['sample'] = ['%s %s' % e[:2] for e in w.events]
        for key, what in probs:
            stats['viol'].append((key, what, dict(part='builder', shape=shape, jobs=jobs, keepgoing=keepgoing, fail=fail,
                                                  choices=list(x.choices), events=['%s %s' % e[:2] for e in w.events])))

    e3.explore(make, bound, check, limit, stats, directed=directed)
    stats['outcomes'] = len(stats['outcomes'])
    stats['viol'] = stats['viol'][:20]
    shutil.rmtree(root, ignore_errors=True)
    return job[:4], stats


_ref = {}


def reference(shape):
    """results of the sequential (jobs=1) build under the default schedule"""
    if shape in _ref: return _ref[shape]
    root = os.path.join(runner.scratch(), 'c06ref')
    w = BuilderWorld(shape, 1, False, None, root)
    x = e3.Exec(w, [])

    def directed(loop):
        w.exec = loop.director
        buf = io.StringIO()
        with contextlib.redirect_stdout(buf), contextlib.redirect_stderr(buf):
            return one_execution(w, loop)
    x.run_directed(directed)
    assert x.exc is None and not x.problems and not w.problems, (x.exc, x.problems, w.problems)
    _ref[shape] = tree_result(root)
    _ref[shape + ':steps'] = [e[1] for e in w.events if e[0] == 'start']
    shutil.rmtree(root, ignore_errors=True)
    return _ref[shape]


def all_steps(shape):
    reference(shape)
    return _ref[shape + ':steps']


def keepgoing_expect(shape, fail):
    """(must, forbidden): with keep-going every step of a root that does not depend on the failing
    package must complete; steps that depend on the failing step must never start."""
    recipes, roots, tools = SHAPES[shape][:3]
    if shape in ('multi', 'twosbx'): return set(), set()
    fpkg, flabel = fail.split(':')[0].split('/')[-1], fail.split(':')[1]
    dep = {n: set(d) | ({tools[n]} if n in tools else set()) for n, d in recipes.items()}

    def closure(n, acc=None):
        acc = set() if acc is None else acc
        for d in dep[n]:
            if d not in acc:
                acc.add(d); closure(d, acc)
        return acc
    order = ['src', 'build', 'dist']
    must = set()
    for r in roots:
        cl = closure(r) | {r}
        if fpkg not in cl:
            for n in cl:
                for l in order: must.add('%s:%s' % (n, l))
    forbidden = set()
    for l in order[order.index(flabel) + 1:]:
        if not (flabel == 'src' and False): forbidden.add('%s:%s' % (fpkg, l))
    for n in recipes:
        if fpkg in closure(n):
            forbidden |= {'%s:build' % n, '%s:dist' % n}
    return must, forbidden


def run_all(ctx, quick):
    jobs = []
    shapes = list(SHAPES)
    big = 200000
    if quick:
        for shape in shapes:
            jobs.append((shape, 1, False, None, 0, big))
        for shape in ('chain', 'diamond', 'multi', 'tool', 'deep', 'tworoots', 'fan3'):
            jobs.append((shape, 2, False, None, 0, big))
        for shape in ('chain', 'diamond', 'multi', 'tool', 'fan3'):
            jobs.append((shape, 3, False, None, 0, big))
        for shape in ('chain', 'multi', 'tool'):
            jobs.append((shape, 2, False, None, 1, big))
        jobs.append(('twosbx', 2, False, None, 1, big)); jobs.append(('twosbx', 3, False, None, 0, big))
        fails = {'chain': ['b:build', 'a:src', 'a:dist'], 'diamond': ['c:build', 'a:build', 'b:dist'],
                 'tworoots': ['d:build', 'c:build'], 'tool': ['t:dist'], 'multi': ['m-p1:src', 'm-p1:build'],
                 'fan3': ['c:build', 'b:src']}     # more runnable branches than job slots: steps queue for a slot while another one fails
        for shape, fl in fails.items():
            steps = sorted({short(x) for x in all_steps(shape)})
            for f in fl:
                assert f in steps, (f, steps)
                for kg in (False, True):
                    for j in (1, 2):
                        jobs.append((shape, j, kg, f, 0, big))
    else:
        # every shape, -j1..4, deviation bound 1 (0 for the three widest shapes from -j3 on); every step of every shape as
        # the failing step with and without keep-going at -j1..2 (and -j3 for the small shapes).  Caps are per configuration
        # and reported (exhaustive=False) when hit.
        for shape in shapes:
            steps = sorted({short(x) for x in all_steps(shape)})
            for j in (1, 2, 3, 4):
                heavy = shape in ('fanout', 'tworoots', 'deep') and j >= 3
                jobs.append((shape, j, False, None, 0 if heavy or shape == 'fanout' else 1, 6000))
            for f in steps:
                for kg in (False, True):
                    for j in (1, 2):
                        jobs.append((shape, j, kg, f, 0, 1500))
    only = ctx.opts.get('shape')
    if only: jobs = [j for j in jobs if j[0] in only.split(',')]
    execs = iters = nout = 0
    capped = False
    samples = []
    for key, st in runner.pmap_unordered(builder_job, jobs):
        execs += st['execs']; iters += st['iters']; nout += st['outcomes']; capped |= st['capped']
        if st['sample'] and len(samples) < 2 and key[1] == 2 and key[0] == 'diamond':
            samples.append(dict(shape=key[0], jobs=key[1], keepgoing=key[2], fail=key[3], events=st['sample']))
        for k, what, rep in st['viol']:
            ctx.violation('builder:' + k, 'shape=%s -j%d keep-going=%s fail=%s: %s' % (key + (what,)), rep)
    ctx.log('builder harness: %d configurations (%d shapes), %d executions, %d loop iterations, %d distinct event orders, capped=%s' % (
        len(jobs), len(shapes), execs, iters, nout, capped))
    return execs, iters, capped, samples, nout


def replay(r):
    root = os.path.join(runner.scratch(), 'c06b')
    w = BuilderWorld(r['shape'], r['jobs'], r['keepgoing'], r['fail'], root)
    x = e3.Exec(w, r['choices'])

    def directed(loop):
        w.exec = loop.director
        return one_execution(w, loop)
    x.run_directed(directed)
    for e in w.events: print('  ', e[:2])
    print('exc:', repr(x.exc)); print('problems:', w.problems, x.problems)
