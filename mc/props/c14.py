"""C14 - audit trails are complete and truthful.

Engine E1 observer on world W1: histories that produce every provenance - fresh build,
incremental builds after each single edit (incl. an edit that re-runs a checkout with identical
content), release build with upload, a second project that downloads, a shared package installed
by one project and used by another.  In every visited state every step workspace of the project
is checked: audit.json.gz parses (gzip + JSON, independent reader), has the documented record
structure, is closed (every referenced artifact id has a record, transitively), and its
variant-id / recipe / package / step / metaEnv equal the live step of an independent in-process
parse of the same project state, its result-hash equals an uncached hash of the workspace, its
dependency ids are the artifact ids of the audits of the actual argument / tool workspaces, the
import SCM record holds the digest of the actual source directory, and the build-id equals the
name the artifact was uploaded under.  Over all records seen: artifact-id <-> record content is
a bijection.
"""
import os, sys, json, gzip, shutil, itertools, io, contextlib, hashlib
from .. import runner, e1, w1
from . import c01

LEVEL = 'model_checking'
REQUIRED = {'artifact-id': str, 'variant-id': str, 'build-id': str, 'result-hash': str, 'meta': dict, 'build': dict, 'dependencies': dict, 'scms': list, 'env': str}
HEX = set('0123456789abcdef')


def read_audit(p):
    with gzip.open(p, 'rb') as f:
        return json.loads(f.read().decode('utf8'))


def live_steps(proj, v, dl, mode):
    """independent in-process parse of the same project state: {workspace path: info}"""
    import bob.builder as bb, bob.state
    from bob.input import RecipeSet
    from bob.cmds.build.state import DevelopDirOracle
    from bob.cmds.helpers import processDefines
    cwd = os.getcwd()
    os.chdir(proj)
    res = {}
    per = None
    buf = io.StringIO()
    try:
        with contextlib.redirect_stdout(buf), contextlib.redirect_stderr(buf):
            recipes = RecipeSet()
            recipes.defineHook('releaseNameFormatter', bb.LocalBuilder.releaseNameFormatter)
            recipes.defineHook('developNameFormatter', bb.LocalBuilder.developNameFormatter)
            recipes.defineHook('developNamePersister', None)
            defs = {}
            for a in w1.args(v, dl):
                k, _, val = a[2:].partition('='); defs[k] = val
            recipes.parse(defs)
            if mode == 'dev':
                nf = recipes.getHook('developNameFormatter')
                per = DevelopDirOracle(nf, recipes.getHook('developNamePersister'))
                nf = bb.LocalBuilder.makeRunnable(per.getFormatter())
            else:
                nf = bb.LocalBuilder.makeRunnable(bb.LocalBuilder.releaseNamePersister(recipes.getHook('releaseNameFormatter')))
            packages = recipes.generatePackages(nf, False, False)
            if mode == 'dev': per.prime(packages)
            todo = [packages.getRootPackage()]
            seen = set()
            while todo:
                p = todo.pop()
                k = tuple(p.getStack())
                if k in seen: continue
                seen.add(k)
                for s in list(p.getDirectDepSteps()) + list(p.getIndirectDepSteps()): todo.append(s.getPackage())
                if not p.getName(): continue
                for st in (p.getCheckoutStep(), p.getBuildStep(), p.getPackageStep()):
                    if not st.isValid(): continue
                    ws = st.getWorkspacePath()
                    res.setdefault(ws, dict(vid=st.getVariantId().hex(), stack='/'.join(p.getStack()), label=st.getLabel(), recipe=p.getRecipe().getName(),
                                            meta=dict(p.getMetaEnv()), args=[a.getWorkspacePath() for a in st.getArguments() if a.isValid()],
                                            tools={n: t.getStep().getWorkspacePath() for n, t in st.getTools().items()},
                                            stacks=set()))
                    res[ws]['stacks'].add('/'.join(p.getStack()))
    finally:
        # the directory oracle keeps a read transaction on .bob-dev-dirs.sqlite3 open for the life of the process: close it,
        # or the next real bob run in this project cannot update the mapping ("database is locked")
        try:
            if mode == 'dev': per._DevelopDirOracle__db.connection.close()
        except Exception:
            pass
        bob.state.finalize()
        os.chdir(cwd)
    return res


def import_digest(d):
    from bob.utils import hashDirectory
    return hashDirectory(d).hex()


ALL_RECORDS = None


def verify(proj, v, dl, mode, where, records, archive=None, allow_missing=False, meta_expect=None):
    """check every step workspace of the project; returns (violations, number of audits checked)"""
    from bob.utils import hashDirectory
    viol = []
    live = live_steps(proj, v, dl, mode)
    n = 0
    aid_of = {}
    audits = {}
    hashes = {}
    for ws, info in live.items():
        p = os.path.join(proj, os.path.dirname(ws), 'audit.json.gz')
        if not os.path.isdir(os.path.join(proj, ws)): continue       # step was not needed (e.g. downloaded dependency)
        if not os.path.exists(p):
            if allow_missing: continue          # the user built this one with --no-audit
            viol.append(('audit-missing:' + info['label'], '%s: %s %s has a workspace but no audit trail' % (where, info['stack'], info['label']))); continue
        try:
            a = read_audit(p)
        except Exception as e:
            viol.append(('audit-unreadable', '%s: %s: %s' % (where, p, e))); continue
        audits[ws] = a
        aid_of[ws] = a.get('artifact', {}).get('artifact-id')
    for ws, a in audits.items():
        info = live[ws]
        n += 1
        tag = '%s: %s %s' % (where, info['stack'], info['label'])
        art = a.get('artifact', {})
        refs = {r.get('artifact-id'): r for r in a.get('references', [])}
        # structure
        for rec in [art] + list(refs.values()):
            for k, t in REQUIRED.items():
                if k not in rec or not isinstance(rec[k], t):
                    viol.append(('record-structure:' + k, '%s: record lacks %s' % (tag, k))); break
            for k in ('artifact-id', 'variant-id', 'build-id', 'result-hash'):
                if not isinstance(rec.get(k), str) or not rec[k] or set(rec[k]) - HEX:
                    viol.append(('record-structure:' + k, '%s: %s is not a hex string' % (tag, k)))
            content = json.dumps({k: x for k, x in rec.items() if k != 'artifact-id'}, sort_keys=True)
            records.append((rec.get('artifact-id'), content))
        # closure
        todo = []
        def deps_of(rec):
            d = rec.get('dependencies', {})
            return list(d.get('args', [])) + list(d.get('tools', {}).values()) + ([d['sandbox']] if d.get('sandbox') else [])
        todo = deps_of(art)
        done = set()
        while todo:
            x = todo.pop()
            if x in done: continue
            done.add(x)
            if x not in refs:
                viol.append(('audit-not-closed', '%s: referenced record %s is missing' % (tag, x[:10]))); continue
            todo += deps_of(refs[x])
        # truthful
        if art.get('variant-id') != info['vid']:
            viol.append(('variant-id-wrong:' + info['label'], '%s: audit says variant-id %s, the step has %s' % (tag, str(art.get('variant-id'))[:10], info['vid'][:10])))
        m = art.get('meta', {})
        if m.get('recipe') != info['recipe'] or m.get('step') != info['label'] or m.get('package') not in info['stacks']:
            viol.append(('names-wrong', '%s: meta %s' % (tag, {k: m.get(k) for k in ('recipe', 'package', 'step')})))
        for mk, mv in (meta_expect or {}).items():
            if m.get(mk) != mv:
                viol.append(('meta-variable-wrong', '%s: meta.%s is %r, the user passed -M %s=%s' % (tag, mk, m.get(mk), mk, mv)))
        if art.get('metaEnv', {}) != info['meta']:
            viol.append(('metaenv-wrong', '%s: metaEnv %s, live %s' % (tag, art.get('metaEnv'), info['meta'])))
        wsabs = os.path.join(proj, ws)
        real = wsabs
        h = hashDirectory(os.path.realpath(real)).hex()
        if art.get('result-hash') != h:
            viol.append(('result-hash-wrong:' + info['label'], '%s: audit result-hash %s, workspace hashes to %s' % (tag, str(art.get('result-hash'))[:10], h[:10])))
        # the referenced records describe the actual dependency workspaces (their audit file may have been re-written since with a new
        # date and therefore a new artifact-id; variant-id and result-hash of what was consumed must be those of the workspace now)
        shared_here = os.path.islink(os.path.join(proj, ws))     # the package came from the shared location: it was built elsewhere

        def dep_ok(aid, depws, what):
            if shared_here: return
            rec = refs.get(aid)
            if rec is None: return       # reported by the closure check
            if depws not in live: return
            if rec.get('variant-id') != live[depws]['vid']:
                viol.append(('dependency-record-wrong:' + what, '%s: %s record has variant-id %s, the dependency step has %s' % (tag, what, str(rec.get('variant-id'))[:10], live[depws]['vid'][:10])))
            hh = hashes.get(depws)
            if hh is None and os.path.isdir(os.path.join(proj, depws)):
                hh = hashes[depws] = hashDirectory(os.path.realpath(os.path.join(proj, depws))).hex()
            if hh is not None and rec.get('result-hash') != hh:
                viol.append(('dependency-record-wrong:' + what, '%s: %s record has result-hash %s, the dependency workspace hashes to %s' % (tag, what, str(rec.get('result-hash'))[:10], hh[:10])))
        got_args = art.get('dependencies', {}).get('args', [])
        if len(got_args) != len(info['args']):
            viol.append(('dependency-ids-wrong:args', '%s: %d argument records for %d arguments' % (tag, len(got_args), len(info['args']))))
        else:
            for aid, depws in zip(got_args, info['args']): dep_ok(aid, depws, 'args')
        got_tools = art.get('dependencies', {}).get('tools', {})
        if sorted(got_tools) != sorted(info['tools']):
            viol.append(('dependency-ids-wrong:tools', '%s: tool records %s for tools %s' % (tag, sorted(got_tools), sorted(info['tools']))))
        else:
            for n_, aid in got_tools.items(): dep_ok(aid, info['tools'][n_], 'tools')
        # SCM state
        if info['label'] == 'src' and info['recipe'] == 'lib':
            scms = art.get('scms', [])
            imp = [s for s in scms if s.get('type') == 'import']
            if len(imp) != 1:
                viol.append(('scm-record-missing', '%s: %d import records' % (tag, len(imp))))
            else:
                want = import_digest(os.path.join(proj, ws))
                if imp[0].get('digest', {}).get('value') != want:
                    viol.append(('scm-state-wrong', '%s: import digest %s, actual checkout %s' % (tag, str(imp[0].get('digest'))[:40], want[:10])))
        if info['label'] == 'src' and info['recipe'] == 'dl':
            url = [s for s in art.get('scms', []) if s.get('type') == 'url']
            if len(url) != 2: viol.append(('scm-record-missing', '%s: %d url records' % (tag, len(url))))
            else:
                # one record per url SCM (the plain file and the extracted archive), each with the digest of what was downloaded
                for data in (('download-data-v%d\n' % v['urlsrc']).encode(), w1.archive_bytes(v['urlsrc'])):
                    if not any(u.get('digest', {}).get('value') in (hashlib.sha1(data).hexdigest(), hashlib.sha256(data).hexdigest()) for u in url):
                        viol.append(('scm-state-wrong', '%s: url digests %s do not match the downloaded files' % (tag, [u.get('digest') for u in url])))
        # uploaded artifact: name == build-id, embedded audit == workspace audit
        if archive and info['label'] == 'dist':
            bidhex = art.get('build-id', '')
            ap = os.path.join(archive, bidhex[0:2], bidhex[2:4], bidhex[4:] + '-1.tgz')
            if os.path.exists(ap):
                import tarfile
                with tarfile.open(ap, 'r:gz') as tar:
                    emb = json.loads(gzip.decompress(tar.extractfile('meta/audit.json.gz').read()).decode())
                if emb.get('artifact', {}).get('artifact-id') != art.get('artifact-id'):
                    viol.append(('uploaded-audit-differs', '%s: the artifact under its build-id holds another audit record' % tag))
            else:
                viol.append(('build-id-not-artifact-name', '%s: no artifact named after build-id %s in the archive' % (tag, bidhex[:10])))
    seen = {}
    for k, w in viol: seen.setdefault(k, (k, w))
    return list(seen.values()), n


def scenario(job):
    kind, arg = job
    base = os.path.join(runner.scratch(), 'c14-%d' % os.getpid())
    shutil.rmtree(base, ignore_errors=True)
    os.makedirs(base + '/mark')
    dl = base + '/dl'
    w1.downloads(dl)
    env = {'VERIF_LOG': base + '/log', 'VERIF_MARK': base + '/mark'}
    viol, records, n, nrun = [], [], 0, 0

    def files(v, share=False):
        f = w1.files(v)
        f['default.yaml'] += 'archive:\n    backend: file\n    path: "%s"\n' % (base + '/archive')
        if share:
            f['default.yaml'] += 'share:\n    path: "%s"\n' % (base + '/share')
            f['recipes/lib2.yaml'] = f['recipes/lib2.yaml'].replace('inherit: [base]\n', 'inherit: [base]\nshared: True\n')
        return f

    def run(D, v, mode, extra=()):
        nonlocal nrun
        open(base + '/log', 'w').close()
        rc, out = e1.run_bob(D.d, c01.MODES[mode][:1] + list(extra) + c01.MODES[mode][1:] + w1.args(v, dl), env)
        nrun += 1
        return rc, out

    def check(D, v, mode, where, archive=None, **kw):
        nonlocal n
        vs, k = verify(D.d, v, dl, mode, where, records, archive, **kw)
        n += k
        viol.extend(vs)

    if kind == 'incremental':
        D = e1.Dir(base + '/proj'); D.reset()
        v = w1.zero(); D.sync(files(v))
        rc, out = run(D, v, 'dev')
        if rc: viol.append(('build-fails', out[-200:]))
        else:
            if arg == (): check(D, v, 'dev', 'fresh dev build')
            for a in arg:
                v[a] ^= 1; D.sync(files(v))
                rc, out = run(D, v, 'dev')
                if rc: viol.append(('build-fails', out[-200:])); break
                check(D, v, 'dev', 'dev build after %s' % list(arg[:arg.index(a) + 1]))
    elif kind == 'noaudit':
        # audit on, edit, rebuild with --no-audit: whatever audit trail is still next to a workspace must describe that workspace
        D = e1.Dir(base + '/proj'); D.reset()
        v = w1.zero(); D.sync(files(v))
        rc, out = run(D, v, 'dev')
        if rc: viol.append(('build-fails', out[-200:]))
        else:
            for a in arg: v[a] ^= 1
            D.sync(files(v))
            rc, out = run(D, v, 'dev', ['--no-audit'])
            if rc: viol.append(('build-fails', out[-200:]))
            else: check(D, v, 'dev', 'dev build --no-audit after an audited build and %s' % list(arg), allow_missing=True)
    elif kind == 'metaM':
        # user meta variables (-M) are recorded, but never replace the names Bob records itself
        D = e1.Dir(base + '/proj'); D.reset()
        v = w1.zero(); D.sync(files(v))
        rc, out = run(D, v, 'dev', ['-M', 'owner=me', '-M', 'recipe=evil', '-M', 'package=evil', '-M', 'step=evil', '-M', 'bob=evil', '-M', 'language=evil'])
        if rc: viol.append(('build-fails', out[-200:]))
        else: check(D, v, 'dev', 'dev build with -M owner=me and -M overrides of recipe/package/step/bob/language', meta_expect={'owner': 'me'})
    elif kind == 'updown':
        v = w1.zero()
        for a in arg: v[a] ^= 1
        U = e1.Dir(base + '/up/proj'); U.reset(); U.sync(files(v))
        rc, out = run(U, v, 'build', ['--upload'])
        if rc: viol.append(('build-fails', out[-200:]))
        else:
            check(U, v, 'build', 'release build with upload %s' % list(arg), archive=base + '/archive')
            Dn = e1.Dir(base + '/down/deeper/proj'); Dn.reset(); Dn.sync(files(v))
            rc, out = run(Dn, v, 'build', ['--download', 'yes'])
            if rc: viol.append(('build-fails', out[-200:]))
            else:
                check(Dn, v, 'build', 'release build with download %s' % list(arg))
                # partially downloaded: one edit on the downloader side, dependencies come from the archive
                v2 = dict(v); v2['libscript'] ^= 1
                Dn.sync(files(v2))
                rc, out = run(Dn, v2, 'build', ['--download', 'yes'])
                if rc: viol.append(('build-fails', out[-200:]))
                else: check(Dn, v2, 'build', 'partially downloaded build %s + libscript' % list(arg))
    elif kind == 'shared':
        v = w1.zero(); v['lib2'] = 1
        for a in arg: v[a] ^= 1
        A = e1.Dir(base + '/a/proj'); A.reset(); A.sync(files(v, share=True))
        rc, out = run(A, v, 'dev')
        if rc: viol.append(('build-fails', out[-200:]))
        else:
            check(A, v, 'dev', 'project that installed the shared package')
            B = e1.Dir(base + '/b/proj'); B.reset(); B.sync(files(v, share=True))
            rc, out = run(B, v, 'dev')
            if rc: viol.append(('build-fails', out[-200:]))
            else: check(B, v, 'dev', 'project that uses the shared package')
    elif kind == 'sharedrace':
        # project B builds the shared package locally (shared location empty when it looked) but loses the install race against
        # project A, whose build of the same Build-Id is not bit-identical (a whitelisted host variable enters the output)
        v = w1.zero(); v['lib2'] = 1
        A = e1.Dir(base + '/a/proj'); A.reset(); A.sync(files(v, share=True))
        B = e1.Dir(base + '/b/proj'); B.reset(); B.sync(files(v, share=True))
        from . import c05
        envB = dict(env); envB.update(c05.wrapper_env()); envB['VERIF_NONCE'] = 'B'
        cmdA = 'cd %s && VERIF_NONCE=A VERIF_LOG=%s PYTHONPATH=%s /venv/bin/python %s dev root %s' % (
            A.d, base + '/logA', runner.PYM, os.path.join(runner.REPO, 'bob'), ' '.join(w1.args(v, dl)))
        envB['VERIF_BEFORE_INSTALL'] = cmdA
        open(base + '/log', 'w').close()
        rc, out = e1.run_bob(B.d, ['dev', 'root'] + w1.args(v, dl), envB, wrapper=c05.wrapper_cmd())
        nrun += 2
        if rc: viol.append(('build-fails', out[-300:]))
        else:
            check(B, v, 'dev', 'project that lost the install race of the shared package')
            if os.path.isdir(A.d + '/dev'): check(A, v, 'dev', 'project that won the install race')
    shutil.rmtree(base, ignore_errors=True)
    return job, nrun, n, viol, records


def run(ctx):
    quick = ctx.tier == 'quick'
    feats = w1.FEATURES
    jobs = [('incremental', ())] + [('incremental', (f,)) for f in feats]
    if not quick:
        jobs += [('incremental', (a, b)) for a in feats for b in ('coscript', 'srcmod', 'libscript', 'twovar') if a != b]
    jobs += [('updown', ()), ('updown', ('lib2',)), ('shared', ()), ('shared', ('urlsrc',)), ('sharedrace', ())]
    jobs += [('noaudit', ('libscript',)), ('noaudit', ('srcmod',)), ('metaM', ())]
    if not quick: jobs += [('updown', (f,)) for f in ('twovar', 'reparam', 'toolpath')]
    nrun = naud = 0
    by_id, by_content = {}, {}
    for job, r, n, viol, records in runner.pmap_unordered(scenario, jobs):
        nrun += r; naud += n
        for key, what in viol:
            ctx.violation(key, what, dict(scenario=[job[0], list(job[1])]))
        for aid, content in records:
            h = hashlib.sha1(content.encode()).hexdigest()
            if by_id.setdefault(aid, h) != h:
                ctx.violation('artifact-id-not-function-of-content', 'artifact-id %s names two different records' % str(aid)[:12], dict(scenario=[job[0], list(job[1])]))
            if by_content.setdefault(h, aid) != aid:
                ctx.violation('artifact-id-not-function-of-content', 'one record content has two artifact-ids', dict(scenario=[job[0], list(job[1])]))
    ctx.log('%d scenarios, %d real bob invocations, %d workspace audits verified, %d distinct records' % (len(jobs), nrun, naud, len(by_id)))
    return ctx.finish(dict(
        states=len(jobs), transitions=nrun, traces_validated_against_impl=nrun, evaluations=naud, distinct_nontrivial=len(by_id),
        rule='one scenario = a build history (fresh / incremental after each edit / upload then download in another directory then partially downloaded / shared package installed '
             'and used); evaluations = workspace audits verified against an independent parse, workspace hashes and dependency audits; non-trivial = distinct audit records',
        exhaustive=True, samples=[dict(scenario=['incremental', ['coscript']]), dict(scenario=['updown', ['lib2']])],
        bounds=dict(features=feats, scenarios=[[j[0], list(j[1])] for j in jobs])),
        assumptions=['the live ids come from an independent in-process parse with the same defines; result hashes from an uncached hashDirectory',
                     'git SCM audit records are covered by C12\'s universe only as far as checkouts go; here import and url SCMs'])


def replay(ctx, body):
    j = body['replay']['scenario']
    print(scenario((j[0], tuple(j[1])))[3])
    return 0
