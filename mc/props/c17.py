"""C17 - string substitution and conditions follow the documented language.

Bounded-exhaustive enumeration (engine E5):
  A. every substitution *tree* up to a nesting depth from the documented grammar, rendered to
     a string, evaluated by a reference evaluator that works on the tree, in every environment
     over {unset, empty, set} x nounset on/off; the real Env.substitute must return exactly the
     reference value or raise ParseError exactly when the reference does.
  B. every raw string up to a length over the meta alphabet: result is str or ParseError.
  C. quoting round trip: every string up to a length over the full meta alphabet comes back
     unchanged when single-quoted / backslash-escaped / double-quoted+escaped, at top level and
     inside a function argument and a ${V:-...} default.
  D. every IfExpression tree up to a depth: value equals the reference (documented precedence
     table, string order) and equals the equivalent function-call form; ill-typed trees
     (operator result in string position) give ParseError, never an internal exception.
  E. every substitution text of part A (up to a depth) written as a double quoted literal of an
     expression: truth value and `== 'value'` agree with the reference substitution (documented:
     literals are "subject to the same string substitution as in the recipes").
"""
import itertools, re, sys, os, types
from .. import runner

LEVEL = 'model_checking'

# ----------------------------------------------------------------------------- reference
class Err(Exception):
    pass


class Abstain(Exception):
    pass


def ref_bool(s):
    """Documented: empty string, "0" and "false" (case insensitive) are false, else true.
    Surrounding white space is not documented -> abstain."""
    if s.lower() in ('', '0', 'false'):
        return False
    if s.strip().lower() in ('', '0', 'false'):
        raise Abstain()
    return True


def tf(b):
    return 'true' if b else 'false'


def ref_fun(name, args, cfg):
    n = len(args)
    if name == 'eq':
        if n != 2: raise Err()
        return tf(args[0] == args[1])
    if name == 'ne':
        if n != 2: raise Err()
        return tf(args[0] != args[1])
    if name == 'not':
        if n != 1: raise Err()
        return tf(not ref_bool(args[0]))
    if name == 'or':
        r = False
        for a in args:
            try:
                if ref_bool(a): return 'true'
            except Abstain:
                r = None
        if r is None: raise Abstain()
        return 'false'
    if name == 'and':
        r = True
        for a in args:
            try:
                if not ref_bool(a): return 'false'
            except Abstain:
                r = None
        if r is None: raise Abstain()
        return 'true'
    if name == 'if-then-else':
        if n != 3: raise Err()
        return args[1] if ref_bool(args[0]) else args[2]
    if name == 'strip':
        if n != 1: raise Err()
        return args[0].strip()
    if name == 'subst':
        if n != 3: raise Err()
        if args[0] == '': raise Abstain()      # "every occurrence of ''" is not defined by the docs
        out, text, frm = [], args[2], args[0]
        i = 0
        while i < len(text):
            if text.startswith(frm, i):
                out.append(args[1]); i += len(frm)
            else:
                out.append(text[i]); i += 1
        return ''.join(out)
    if name in ('match', 'resubst'):
        base = 2 if name == 'match' else 3
        if n not in (base, base + 1): raise Err()
        flags = 0
        if n == base + 1:
            if args[base] != 'i': raise Err()
            flags = re.IGNORECASE
        try:
            if name == 'match':
                return tf(re.search(args[1], args[0], flags) is not None)
            return re.sub(args[0], args[1], args[2], flags=flags)
        except re.error:
            raise Err()
    if name == 'is-sandbox-enabled':
        if n != 0: raise Err()
        return tf(cfg['sandbox'])
    if name == 'is-tool-defined':
        if n != 1: raise Err()
        return tf(args[0] in cfg['tools'])
    if name == 'get-tool-env':
        if n not in (2, 3): raise Err()
        if args[0] not in cfg['tools']: raise Err()
        v = cfg['tools'][args[0]].get(args[1], args[2] if n == 3 else None)
        if v is None: raise Err()
        return v
    raise Err()     # unknown function


def ref_eval(atoms, env, nounset, cfg):
    out = []
    for a in atoms:
        k = a[0]
        if k in ('lit', 'esc', 'sq'):
            out.append(a[1])
        elif k == 'dq':
            out.append(ref_eval(a[1], env, nounset, cfg))
        elif k in ('bare', 'var'):
            if a[1] in env:
                out.append(env[a[1]])
            elif nounset:
                raise Err()
        elif k == 'vdef':
            _, name, colon, op, sub = a
            unset = name not in env or (colon and env[name] == '')
            if op == '-':
                out.append(ref_eval(sub, env, nounset, cfg) if unset else env[name])
            else:
                out.append('' if unset else ref_eval(sub, env, nounset, cfg))
        elif k == 'fun':
            args = [ref_eval(x, env, nounset, cfg) for x in a[2]]
            out.append(ref_fun(a[1], args, cfg))
        else:
            raise AssertionError(a)
    return ''.join(out)


NAME_CHARS = 'ABCDEFGHIJKLMNOPQRSTUVWXYZ_abcdefghijklmnopqrstuvwxyz0123456789'


def render(atoms):
    """Tree -> text. Returns None if the rendering would be ambiguous (bare variable followed
    by a name character: the docs say braces may be omitted only otherwise)."""
    out = []
    prev_bare = False
    for a in atoms:
        k = a[0]
        if k == 'lit': s = a[1]
        elif k == 'esc': s = '\\' + a[1]
        elif k == 'sq': s = "'" + a[1] + "'"
        elif k == 'dq':
            s = render(a[1])
            if s is None: return None
            s = '"' + s + '"'
        elif k == 'bare': s = '$' + a[1]
        elif k == 'var': s = '${' + a[1] + '}'
        elif k == 'vdef':
            s = render(a[4])
            if s is None: return None
            s = '${' + a[1] + (':' if a[2] else '') + a[3] + s + '}'
        elif k == 'fun':
            parts = [a[1]]
            for x in a[2]:
                r = render(x)
                if r is None: return None
                parts.append(r)
            s = '$(' + ','.join(parts) + ')'
        if prev_bare and s and s[0] in NAME_CHARS:
            return None
        prev_bare = (k == 'bare')
        out.append(s)
    return ''.join(out)


def kinds(atoms, acc=None):
    acc = set() if acc is None else acc
    for a in atoms:
        k = a[0]
        if k == 'vdef':
            acc.add('vdef' + (':' if a[2] else '') + a[3]); kinds(a[4], acc)
        elif k == 'fun':
            acc.add('fun:' + a[1])
            for x in a[2]: kinds(x, acc)
        elif k == 'dq':
            acc.add('dq'); kinds(a[1], acc)
        else:
            acc.add(k)
    return acc


# ----------------------------------------------------------------------------- generator
DELIMS = {'top': '', 'dq': '', 'brace': '}', 'arg': ',)'}
PLAIN_SPECIALS = ',)}:-+'
VARS = ('A', 'B', 'U')          # U is never set


def atoms0(ctx):
    res = [('lit', t) for t in ('a', 'b', '0', ' ', 'false', ' a ')]
    res += [('lit', c) for c in PLAIN_SPECIALS if c not in DELIMS[ctx]]
    res += [('esc', c) for c in ('\\', '"', "'", '$', ',', ')', '}', 'a', ' ')]
    res += [('sq', t) for t in ('', 'a b', '$A', '"', '\\', ',', ')', '}', '${A:-b}', '$(eq,a,a)')]
    res += [('bare', 'A'), ('bare', 'B'), ('var', 'A'), ('var', 'B'), ('var', 'U')]
    return res


THIN0 = [[], [('lit', 'a')], [('lit', 'b')], [('lit', '0')], [('lit', ' false ')], [('lit', ' a ')],
         [('bare', 'A')], [('var', 'B')], [('var', 'U')], [('sq', 'a,b')], [('esc', ',')], [('lit', 'A')]]

FUNS = [('eq', (1, 2, 3)), ('ne', (2,)), ('not', (0, 1, 2)), ('or', (0, 1, 2)), ('and', (0, 1, 2)),
        ('if-then-else', (2, 3)), ('strip', (1,)), ('subst', (3,)), ('match', (2, 3)),
        ('resubst', (3, 4)), ('is-sandbox-enabled', (0, 1)), ('is-tool-defined', (1,)),
        ('get-tool-env', (2, 3)), ('nofun', (0, 1))]

SPECIAL_ARGS = {
    'match': [[('lit', 'a')], [('lit', 'A')], [('lit', 'i')], [('lit', '(')], [('lit', 'a|b')], [('bare', 'A')]],
    'resubst': [[('lit', 'a')], [('lit', 'A')], [('lit', 'i')], [('lit', '[')], [('lit', 'x')], [('bare', 'A')]],
    'is-tool-defined': [[('lit', 't')], [('lit', 'u')], [('bare', 'A')]],
    'get-tool-env': [[('lit', 't')], [('lit', 'u')], [('lit', 'TV')], [('lit', 'X')], [('bare', 'A')]],
}


def gen_atoms(depth, ctx, thin):
    """All atoms of nesting depth <= depth valid in ctx. `thin` selects the operand sets."""
    for a in atoms0(ctx):
        yield a
    if depth == 0:
        return
    for s in gen_strings(depth - 1, 'dq', thin, nested=True):
        yield ('dq', s)
    for s in gen_strings(depth - 1, 'brace', thin, nested=True):
        for v in VARS:
            for colon in (True, False):
                for op in '-+':
                    yield ('vdef', v, colon, op, s)
    args = None
    for name, arities in FUNS:
        if name in SPECIAL_ARGS:
            pool = SPECIAL_ARGS[name]
        else:
            if args is None:
                args = list(gen_strings(depth - 1, 'arg', thin, nested=True, forargs=True))
            pool = args
        for n in arities:
            if n >= 3 and len(pool) > 14:
                p = pool[:14]
            elif n == 2 and len(pool) > 40:
                p = pool[:40]
            else:
                p = pool
            for combo in itertools.product(p, repeat=n):
                yield ('fun', name, list(combo))


def gen_strings(depth, ctx, thin, nested=False, forargs=False):
    """Sequences of atoms. Top level: all singles, all pairs with a thin partner.
    Nested: singles of that depth; pairs only with literal 'a' around (thinning rule)."""
    if depth == 0 and nested:
        for s in THIN0:
            if all(not (a[0] == 'lit' and any(c in DELIMS[ctx] for c in a[1])) for a in s):
                yield s
        return
    yield []
    small = [('lit', 'a'), ('lit', ' '), ('bare', 'A'), ('var', 'U'), ('esc', '$'), ('sq', 'x')]
    if nested:
        # operands: every atom once, plus prefixed/suffixed by a literal (adjacency handling)
        lim = thin if forargs else None
        n = 0
        for a in gen_atoms(depth, ctx, thin):
            if a[0] in ('lit', 'esc', 'sq') and depth > 0:
                continue            # depth-0 material is already in THIN0-like sets
            yield [a]
            n += 1
            if lim and n >= lim:
                break
        return
    for a in gen_atoms(depth, ctx, thin):
        yield [a]
        for b in small:
            yield [a, b]
            yield [b, a]


ENVS = []
for va in (None, '', 'x'):
    for vb in (None, '', '0'):
        e = {}
        if va is not None: e['A'] = va
        if vb is not None: e['B'] = vb
        ENVS.append(e)
CFGS = [dict(sandbox=False, tools={}), dict(sandbox=True, tools={'t': {'TV': 'tv'}})]


def real_envs():
    from bob.stringparser import Env, DEFAULT_STRING_FUNS, EXTRA_STRING_FUNS
    funs = dict(DEFAULT_STRING_FUNS); funs.update(EXTRA_STRING_FUNS)
    res = []
    for cfg in CFGS:
        row = []
        tools = {k: types.SimpleNamespace(environment=dict(v)) for k, v in cfg['tools'].items()}
        for e in ENVS:
            env = Env(e)
            env.setFuns(funs)
            env.setFunArgs({'sandbox': cfg['sandbox'], '__tools': tools})
            row.append(env)
        res.append(row)
    return res


_REAL = None


def check_tree(atoms):
    """Returns (text, n_evals, n_nontrivial, outcomes, violations)"""
    global _REAL
    from bob.errors import ParseError
    if _REAL is None: _REAL = real_envs()
    text = render(atoms)
    if text is None:
        return None
    viol = []
    n = nt = 0
    outcomes = set()
    needcfg = ('tool' in text) or ('sandbox' in text)
    for ci, cfg in enumerate(CFGS):
        if ci and not needcfg: break
        for ei, e in enumerate(ENVS):
            for nounset in (True, False):
                try:
                    exp = ('ok', ref_eval(atoms, e, nounset, cfg))
                except Err:
                    exp = ('err',)
                except Abstain:
                    exp = None
                try:
                    got = ('ok', _REAL[ci][ei].substitute(text, 'p', nounset))
                except ParseError:
                    got = ('err',)
                except Exception as ex:
                    got = ('internal', type(ex).__name__, str(ex)[:100])
                n += 1
                outcomes.add(got[0] if got[0] != 'ok' else 'ok')
                if got[0] == 'ok' and not isinstance(got[1], str):
                    got = ('internal', 'non-str result', repr(got[1])[:80])
                if got[0] == 'internal':
                    viol.append(('internal-exception:' + got[1], text, e, nounset, ci, exp, got))
                    continue
                if exp is None:
                    continue
                nt += 1
                if got != exp:
                    viol.append(('wrong-value', text, e, nounset, ci, exp, got))
    return text, n, nt, outcomes, viol


def _tree_worker(job):
    depth, thin, k, K = job
    n = nt = cnt = 0
    viols = []
    outcomes = set()
    texts = set()
    sample = None
    for i, atoms in enumerate(gen_strings(depth, 'top', thin)):
        if (i // 512) % K != k: continue
        r = check_tree(atoms)
        if r is None: continue
        text, a, b, oc, v = r
        if text in texts: continue
        texts.add(text)
        cnt += 1; n += a; nt += b; outcomes |= oc
        if sample is None and len(text) > 12: sample = text
        for x in v[:1]:
            viols.append((sorted(kinds(atoms)), atoms) + x)
    return cnt, n, nt, outcomes, viols[:400], sample


def chunks(it, size):
    buf = []
    for x in it:
        buf.append(x)
        if len(buf) >= size:
            yield buf; buf = []
    if buf: yield buf


# ----------------------------------------------------------------------------- raw strings
RAW_ALPHA = '$\\"\'{}(),:-+a'


def _raw_worker(job):
    prefix, length = job
    from bob.errors import ParseError
    from bob.stringparser import Env, DEFAULT_STRING_FUNS, EXTRA_STRING_FUNS
    funs = dict(DEFAULT_STRING_FUNS); funs.update(EXTRA_STRING_FUNS)
    env = Env({'a': 'x', 'aa': ''}); env.setFuns(funs)
    env.setFunArgs({'sandbox': False, '__tools': {}})
    n = 0; ok = err = 0
    viol = []
    for rest in itertools.product(RAW_ALPHA, repeat=length - len(prefix)):
        s = prefix + ''.join(rest)
        for nounset in (True, False):
            n += 1
            try:
                r = env.substitute(s, 'p', nounset)
                if not isinstance(r, str):
                    viol.append(('raw:non-str-result', s, nounset, repr(r)))
                ok += 1
                if not any(c in s for c in '\\"\'$') and r != s:
                    viol.append(('raw:plain-text-changed', s, nounset, r))
            except ParseError:
                err += 1
            except Exception as ex:
                viol.append(('raw:internal-exception:' + type(ex).__name__, s, nounset, str(ex)[:100]))
    return n, ok, err, viol[:20]


# ----------------------------------------------------------------------------- quoting
Q_ALPHA = '$\\"\'{}(),:-+a #'


def _quote_worker(job):
    prefix, length = job
    from bob.errors import ParseError
    from bob.stringparser import Env, DEFAULT_STRING_FUNS
    env = Env({'A': 'x'}); env.setFuns(dict(DEFAULT_STRING_FUNS)); env.setFunArgs({'sandbox': False, '__tools': {}})
    n = 0
    viol = []
    for rest in itertools.product(Q_ALPHA, repeat=length - len(prefix)):
        s = prefix + ''.join(rest)
        forms = [('backslash', ''.join('\\' + c for c in s))]
        if "'" not in s:
            forms.append(('single', "'" + s + "'"))
        # inside double quotes the characters \ " ' $ are (still) meta characters
        forms.append(('double', '"' + ''.join(('\\' + c) if c in '\\"\'$' else c for c in s) + '"'))
        for fname, q in forms:
            for cname, wrap in (('top', '%s'), ('arg', '$(if-then-else,1,%s,n)'), ('default', '${U:-%s}'),
                                ('alt', '${A:+%s}'), ('indq', '"%s"') if fname != 'double' else ('top2', 'a%sa')):
                text = wrap % q
                exp = (wrap % '\0').replace('\0', s) if cname == 'top2' else s
                n += 1
                try:
                    r = env.substitute(text, 'p', True)
                except Exception as ex:
                    r = (type(ex).__name__, str(ex)[:80])
                if cname == 'top2': exp = 'a' + s + 'a'
                if r != exp:
                    viol.append(('quote:%s-in-%s' % (fname, cname), s, text, r))
    return n, viol[:20]


# ----------------------------------------------------------------------------- IfExpression
CMP = ['<', '<=', '>', '>=', '==', '!=']
PREC = {'!': 9, '<': 8, '<=': 7, '>': 6, '>=': 5, '==': 4, '!=': 3, '&&': 2, '||': 1}
PYOP = {'<': lambda a, b: a < b, '<=': lambda a, b: a <= b, '>': lambda a, b: a > b,
        '>=': lambda a, b: a >= b, '==': lambda a, b: a == b, '!=': lambda a, b: a != b}
IF_ENVS = [{}, {'A': 'x'}, {'A': ''}, {'A': '0'}]
IF_STRS = [('dq', ''), ('dq', 'a'), ('dq', '0'), ('dq', '$A'), ('sq', 'a'), ('dq', 'b'), ('dq', 'false'), ('dq', '${A:-b}'),
           ('sq', '$A'), ('dq', 'A'), ('dq', 'ab')]
IF_FUNS = [('eq', 2), ('ne', 2), ('not', 1), ('and', 2), ('or', 2), ('strip', 1), ('nofun', 1), ('eq', 1)]


class TypeErr(Exception):
    pass


def if_is_str(t):
    return t[0] in ('dq', 'sq', 'call')


def if_str(t, env):
    """string value of a string-typed tree (reference)"""
    if t[0] == 'sq': return t[1]
    if t[0] == 'dq':
        return ref_subst_simple(t[1], env)
    if t[0] == 'call':
        args = [if_str(a, env) for a in t[2]]
        return ref_fun(t[1], args, CFGS[0])
    raise TypeErr()


def ref_subst_simple(text, env):
    # the few literal contents used in IF_STRS, evaluated with nounset=False (documented for
    # expressions: unset variables expand to empty strings)
    if text == '$A': return env.get('A', '')
    if text == '${A:-b}': return env['A'] if env.get('A', '') != '' else 'b'
    assert '$' not in text
    return text


def if_bool(t, env):
    k = t[0]
    if if_is_str(t):
        return ref_bool(if_str(t, env))
    if k == 'not':
        return not if_bool(t[1], env)
    if k == 'bin':
        op = t[1]
        if op in ('&&', '||'):
            # both operands are evaluated (no short circuit is documented; errors in either
            # operand therefore surface) - compute both, then combine
            errs = []
            vals = []
            for x in (t[2], t[3]):
                try:
                    vals.append(if_bool(x, env))
                except Abstain:
                    vals.append(None)
            if None in vals:
                # abstain unless the other operand decides
                other = [v for v in vals if v is not None]
                if other and ((op == '&&' and other[0] is False) or (op == '||' and other[0] is True)):
                    return other[0]
                raise Abstain()
            return (vals[0] and vals[1]) if op == '&&' else (vals[0] or vals[1])
        if not (if_is_str(t[2]) and if_is_str(t[3])):
            raise TypeErr()
        return PYOP[op](if_str(t[2], env), if_str(t[3], env))
    raise AssertionError(t)


def if_welltyped(t):
    k = t[0]
    if k in ('dq', 'sq'): return True
    if k == 'call': return all(if_welltyped(a) for a in t[2])
    if k == 'not': return if_welltyped(t[1])
    if k == 'bin':
        if t[1] in CMP and not (if_is_str(t[2]) and if_is_str(t[3])): return False
        return if_welltyped(t[2]) and if_welltyped(t[3])


def if_prec(t):
    if t[0] == 'not': return PREC['!']
    if t[0] == 'bin': return PREC[t[1]]
    return 10


def if_render(t, full):
    k = t[0]
    if k == 'dq': return '"' + t[1].replace('\\', '\\\\').replace('"', '\\"') + '"'
    if k == 'sq': return "'" + t[1] + "'"
    if k == 'call': return t[1] + '(' + ', '.join(if_render(a, full) for a in t[2]) + ')'
    if k == 'not':
        s = if_render(t[1], full)
        if (full and not if_is_str(t[1])) or if_prec(t[1]) < PREC['!']: s = '(' + s + ')'
        return '!' + s
    if k == 'bin':
        l, r = if_render(t[2], full), if_render(t[3], full)
        p = PREC[t[1]]
        if (full and not if_is_str(t[2])) or if_prec(t[2]) < p: l = '(' + l + ')'
        if (full and not if_is_str(t[3])) or if_prec(t[3]) <= p: r = '(' + r + ')'
        return l + ' ' + t[1] + ' ' + r


def if_funform(t):
    """Equivalent function-call form (as an IfExpression tree of calls), or None if the tree
    uses an operator with no function counterpart."""
    k = t[0]
    if k in ('dq', 'sq'): return t
    if k == 'call':
        a = [if_funform(x) for x in t[2]]
        return None if None in a else ('call', t[1], a)
    if k == 'not':
        a = if_funform(t[1])
        return None if a is None else ('call', 'not', [a])
    if k == 'bin':
        f = {'==': 'eq', '!=': 'ne', '&&': 'and', '||': 'or'}.get(t[1])
        if f is None: return None
        a, b = if_funform(t[2]), if_funform(t[3])
        return None if (a is None or b is None) else ('call', f, [a, b])


def if_signature(t):
    """behaviour class used for thinning: (type, well-typed, truth vector)."""
    res = []
    for e in IF_ENVS:
        try:
            res.append(if_bool(t, e))
        except TypeErr:
            res.append('T')
        except Err:
            res.append('E')
        except Abstain:
            res.append('?')
    top = t[0] if t[0] != 'bin' else ('cmp' if t[1] in CMP else t[1])
    return (top, tuple(res))


def if_levels(maxdepth, per_class, nleaf=None):
    lv0 = list(IF_STRS)[:nleaf]
    levels = [lv0]
    allt = list(lv0)
    for d in range(1, maxdepth + 1):
        # thin the operand pool by behaviour class
        pool, seen = [], {}
        for t in allt:
            sg = if_signature(t)
            if seen.get(sg, 0) < per_class:
                seen[sg] = seen.get(sg, 0) + 1
                pool.append(t)
        new = []
        strpool = [t for t in pool if if_is_str(t)]
        for name, ar in IF_FUNS:
            for combo in itertools.product(strpool[:8] if ar == 2 else strpool[:12], repeat=ar):
                new.append(('call', name, list(combo)))
        for t in pool:
            new.append(('not', t))
        for op in CMP + ['&&', '||']:
            for a in pool:
                for b in pool:
                    new.append(('bin', op, a, b))
        levels.append(new)
        allt = allt + new
    return allt


def _if_worker(chunk):
    from bob.errors import ParseError
    from bob.stringparser import Env, DEFAULT_STRING_FUNS, IfExpression
    envs = []
    for e in IF_ENVS:
        env = Env(e); env.setFuns(dict(DEFAULT_STRING_FUNS)); env.setFunArgs({'sandbox': False, '__tools': {}})
        envs.append(env)
    n = nt = 0
    viol = []
    outcomes = set()

    parsed = {}

    def real(text, env):
        try:
            if text not in parsed:
                try:
                    parsed[text] = IfExpression(text)
                except ParseError:
                    parsed[text] = None
            if parsed[text] is None:
                return ('err',)
            r = parsed[text].evalExpression(env)
            if not isinstance(r, bool):
                return ('internal', 'non-bool', repr(r))
            return ('ok', r)
        except ParseError:
            return ('err',)
        except Exception as ex:
            return ('internal', type(ex).__name__, str(ex)[:100])

    for t in chunk:
        wt = if_welltyped(t)
        ff = if_funform(t) if wt else None
        texts = [('full', if_render(t, True)), ('min', if_render(t, False))]
        if texts[0][1] == texts[1][1]: texts.pop()
        parsed.clear()
        fftext = if_render(ff, True) if ff is not None else None
        for ei, e in enumerate(IF_ENVS):
            try:
                exp = ('ok', if_bool(t, e))
            except (TypeErr, Err):
                exp = ('err',)
            except Abstain:
                exp = None
            for how, text in texts:
                got = real(text, envs[ei])
                n += 1
                outcomes.add(got[0] + (str(got[1]) if got[0] == 'ok' else ''))
                if got[0] == 'internal':
                    kind = 'welltyped' if wt else 'operator-in-string-context'
                    viol.append(('ifexpr:internal-exception:%s:%s' % (got[1], kind), text, e, exp, got))
                    continue
                if exp is not None:
                    nt += 1
                    if got != exp:
                        viol.append(('ifexpr:wrong-value:' + how, text, e, exp, got))
                if fftext is not None and how == 'full':
                    g2 = real(fftext, envs[ei])
                    n += 1
                    if g2 != got:
                        viol.append(('ifexpr:infix-differs-from-function-form', text, e, fftext, (got, g2)))
    return n, nt, outcomes, viol[:40]


# ----------------------------------------------------------------------------- E: literals of expressions
def _iflit_worker(job):
    """A double quoted literal of an expression is "subject to the same string substitution as in the recipes"
    (unset variables expand to empty): for every substitution tree text s the expressions "s" and "s" == 'v'
    (v = reference value) must agree with the reference of part A."""
    depth, thin, k, K = job
    from bob.errors import ParseError
    from bob.stringparser import Env, DEFAULT_STRING_FUNS, EXTRA_STRING_FUNS, IfExpression
    funs = dict(DEFAULT_STRING_FUNS); funs.update(EXTRA_STRING_FUNS)
    cfg = CFGS[0]
    envs = []
    for e in ENVS:
        env = Env(e); env.setFuns(funs); env.setFunArgs({'sandbox': cfg['sandbox'], '__tools': {}})
        envs.append(env)
    n = nt = 0
    viol = []
    texts = set()

    def real(expr, env):
        try:
            r = expr.evalExpression(env)
            return ('ok', r) if isinstance(r, bool) else ('internal', 'non-bool', repr(r))
        except ParseError:
            return ('err',)
        except Exception as ex:
            return ('internal', type(ex).__name__, str(ex)[:100])

    for i, atoms in enumerate(gen_strings(depth, 'top', thin)):
        if (i // 64) % K != k: continue
        text = render(atoms)
        if text is None or text in texts or 'tool' in text or 'sandbox' in text: continue
        texts.add(text)
        lit = '"' + text.replace('\\', '\\\\').replace('"', '\\"') + '"'
        try:
            e1 = IfExpression(lit)
        except ParseError:
            viol.append(('iflit:literal-does-not-parse', lit, None, None, None)); continue
        cmpcache = {}
        for ei, e in enumerate(ENVS):
            try:
                v = ref_eval(atoms, e, False, cfg)
            except Err:
                v = Err
            except Abstain:
                continue
            try:
                exp = ('err',) if v is Err else ('ok', ref_bool(v))
            except Abstain:
                exp = None
            got = real(e1, envs[ei]); n += 1
            if got[0] == 'internal':
                viol.append(('iflit:internal-exception:' + got[1], lit, e, exp, got))
            elif exp is not None:
                nt += 1
                if got != exp: viol.append(('iflit:wrong-truth-value', lit, e, exp, got))
            if v is not Err and "'" not in v:
                for op, want in (('==', True), ('!=', False)):
                    ctext = "%s %s '%s'" % (lit, op, v)
                    if ctext not in cmpcache:
                        try: cmpcache[ctext] = IfExpression(ctext)
                        except ParseError: cmpcache[ctext] = None
                    got = real(cmpcache[ctext], envs[ei]) if cmpcache[ctext] is not None else ('err',)
                    n += 1; nt += 1
                    if got != ('ok', want):
                        viol.append(('iflit:literal-value-differs-from-substitution', ctext, e, ('ok', want), got))
    return len(texts), n, nt, viol[:40]


# ----------------------------------------------------------------------------- driver
def run(ctx):
    quick = ctx.tier == 'quick'
    # thorough: same nesting depth with a wider argument pool, longer raw/quoted strings, more operand classes (depth 3 is ~10^8 trees)
    depth = int(ctx.opts.get('depth', 2))
    thin = int(ctx.opts.get('thin', 60 if quick else 150))
    rawlen = int(ctx.opts.get('rawlen', 5 if quick else 6))
    qlen = int(ctx.opts.get('qlen', 3 if quick else 4))
    ifdepth = int(ctx.opts.get('ifdepth', 2))
    per_class = int(ctx.opts.get('perclass', 1 if quick else 2))
    samples = []
    states = trans = nontriv = 0
    outcomes = set()

    # ---- A: trees
    cnt = 0
    K = 64
    jobs = [(depth, thin, k, K) for k in range(K)]
    for c, n, nt, oc, viols, sample in runner.pmap_unordered(_tree_worker, jobs):
        cnt += c; trans += n; nontriv += nt; outcomes |= oc
        if sample and len(samples) < 4: samples.append({'part': 'tree', 'text': sample})
        for kinds_, atoms, cat, text, e, nounset, ci, exp, got in viols:
            key = 'subst:%s:%s' % (cat, '/'.join(k for k in kinds_ if k not in ('lit',)))
            ctx.violation(key, '%r env=%r nounset=%s cfg=%d expected=%r got=%r' % (text, e, nounset, ci, exp, got),
                          dict(part='tree', text=text, env=e, nounset=nounset, cfg=ci, expected=exp, got=got))
    ctx.log('A: %d distinct rendered trees (depth<=%d), %d evaluations, %d with defined expectation, outcomes=%s' % (
        cnt, depth, trans, nontriv, sorted(outcomes)))
    states += cnt
    a_cnt, a_eval = cnt, trans

    # ---- B: raw strings
    rawn = rawok = rawerr = 0
    jobs = []
    for L in range(0, rawlen + 1):
        if L <= 2: jobs.append(('', L))
        else: jobs += [(''.join(p), L) for p in itertools.product(RAW_ALPHA, repeat=2)]
    for n, ok, err, viols in runner.pmap_unordered(_raw_worker, jobs):
        rawn += n; rawok += ok; rawerr += err
        for v in viols:
            ctx.violation(v[0], '%r nounset=%s -> %s' % (v[1], v[2], v[3]), dict(part='raw', text=v[1], nounset=v[2]))
    ctx.log('B: raw strings len<=%d over %d chars: %d evaluations (%d str, %d ParseError)' % (rawlen, len(RAW_ALPHA), rawn, rawok, rawerr))
    samples.append({'part': 'raw', 'text': '${a:-$(', 'alphabet': RAW_ALPHA, 'maxlen': rawlen})
    states += rawn // 2; trans += rawn

    # ---- C: quoting
    qn = 0
    jobs = []
    for L in range(0, qlen + 1):
        if L <= 1: jobs.append(('', L))
        else: jobs += [(c, L) for c in Q_ALPHA]
    for n, viols in runner.pmap_unordered(_quote_worker, jobs):
        qn += n
        for v in viols:
            ctx.violation(v[0], 'protected text %r written as %r came back as %r' % (v[1], v[2], v[3]),
                          dict(part='quote', s=v[1], text=v[2]))
    ctx.log('C: quoting round trips: %d (strings len<=%d over %d chars)' % (qn, qlen, len(Q_ALPHA)))
    samples.append({'part': 'quote', 's': '$,)', 'text': "$(if-then-else,1,'$,)',n)"})
    states += qn; trans += qn; nontriv += qn

    # ---- D: IfExpression
    nleaf = int(ctx.opts.get('nleaf', 6 if quick else len(IF_STRS)))
    trees = if_levels(ifdepth, per_class, nleaf)
    ifn = ifnt = 0
    ifout = set()
    for n, nt, oc, viols in runner.pmap_unordered(_if_worker, chunks(iter(trees), 50)):
        ifn += n; ifnt += nt; ifout |= oc
        for v in viols:
            ctx.violation(v[0], '%r env=%r expected=%r got=%r' % (v[1], v[2], v[3], v[4]),
                          dict(part='ifexpr', text=v[1], env=v[2], expected=v[3], got=v[4]))
    ctx.log('D: %d IfExpression trees (depth<=%d), %d evaluations, %d with defined expectation, outcomes=%s' % (
        len(trees), ifdepth, ifn, ifnt, sorted(ifout)))
    samples.append({'part': 'ifexpr', 'text': if_render(trees[-1], False)})
    states += len(trees); trans += ifn; nontriv += ifnt

    # ---- E: expression literals = recipe substitution
    litdepth = int(ctx.opts.get('litdepth', 0 if quick else 1))
    K = 64
    ln = le = lnt = 0
    for c, n, nt, viols in runner.pmap_unordered(_iflit_worker, [(litdepth, thin, k, K) for k in range(K)]):
        ln += c; le += n; lnt += nt
        for v in viols:
            ctx.violation(v[0], '%r env=%r expected=%r got=%r' % (v[1], v[2], v[3], v[4]), dict(part='iflit', text=v[1], env=v[2], expected=v[3], got=v[4]))
    ctx.log('E: %d substitution texts (depth<=%d) as expression literals, %d evaluations, %d with defined expectation' % (ln, litdepth, le, lnt))
    states += ln; trans += le; nontriv += lnt

    return ctx.finish(dict(
        states=states, transitions=trans, traces_validated_against_impl=trans,
        evaluations=trans, distinct_nontrivial=nontriv,
        rule='states = distinct inputs (rendered substitution trees, raw strings, quoted strings, IfExpression trees); '
             'transitions = evaluations of the real Env.substitute / IfExpression on (input, environment, nounset); '
             'non-trivial = evaluations where the reference model defines the expected outcome (value or ParseError) '
             'and it was compared; raw-string evaluations only count as type checks and are not in distinct_nontrivial',
        exhaustive=True, samples=samples,
        bounds=dict(tree_depth=depth, nested_arg_cap=thin, raw_len=rawlen, raw_alphabet=RAW_ALPHA, quote_len=qlen,
                    quote_alphabet=Q_ALPHA, ifexpr_depth=ifdepth, ifexpr_per_behaviour_class=per_class, literal_tree_depth=litdepth,
                    envs=len(ENVS), nounset=[True, False]),
        parts=dict(trees=a_cnt, tree_evaluations=a_eval, raw_evaluations=rawn, quote_round_trips=qn,
                   ifexpr_trees=len(trees), ifexpr_evaluations=ifn, literal_texts=ln, literal_evaluations=le),
        distinct_outcomes=sorted(outcomes | ifout)),
        assumptions=['reference semantics written from doc/manual/configuration.rst (String substitution, Boolean '
                     'properties) and doc/manpages/bobpaths.rst (operator table); where the documentation is silent '
                     '(white space around boolean words, $(subst) with empty pattern) the reference abstains',
                     'regular expressions: Python re is trusted on both sides'])


def replay(ctx, body):
    from bob.errors import ParseError
    r = body['replay']
    print('replaying', r)
    if r['part'] in ('tree', 'raw', 'quote'):
        envs = real_envs()
        from bob.stringparser import Env
        env = envs[r.get('cfg', 0)][0].derive({})
        env.data = dict(r.get('env', {'a': 'x', 'aa': '', 'A': 'x'}))
        try:
            print('result:', repr(env.substitute(r['text'], 'p', r.get('nounset', True))))
        except ParseError as e:
            print('ParseError:', e.slogan)
    else:
        from bob.stringparser import Env, DEFAULT_STRING_FUNS, IfExpression
        env = Env(r['env']); env.setFuns(dict(DEFAULT_STRING_FUNS)); env.setFunArgs({'sandbox': False, '__tools': {}})
        try:
            print('result:', IfExpression(r['text']).evalExpression(env))
        except ParseError as e:
            print('ParseError:', e.slogan)
    print('expected:', r.get('expected'))
    return 0
