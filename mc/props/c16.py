"""C16 - workspace directories separate variants; clean removes only garbage.

Engine E1 on world W1 (recipe `lib` appears in up to two variants that come and go with the
features twovar / reparam; packages appear and disappear with lib2; libscript / invars change the
variant of every lib instance).  Histories of edits, each followed by a real `bob dev` (and
optionally `bob build`), with `bob clean`, `bob clean --dry-run`, `bob clean -s`, `bob clean
--release` in between.  Invariants:
  (a/c) every build result equals the clean build of the same feature vector (build scripts leave
        variant-named witness files: a directory shared by two variants or handed over without
        being emptied shows in the content-revealing root result);
  (b)   a package whose variant-defining inputs did not change between two consecutive states keeps
        its src/build/dist directories (`bob query-path`);
  (d)   clean never removes a directory that `bob query-path` reports for a package of the current
        project (in either mode), never touches source directories without -s, a build after
        clean re-executes nothing, and --dry-run leaves the tree byte-identical.
"""
import os, sys, shutil, itertools, hashlib
from .. import runner, e1, w1
from . import c01

LEVEL = 'model_checking'
EDITS = ['twovar', 'reparam', 'lib2', 'libscript', 'invars', 'threevar', 'twins']


def qpaths(proj, v, dl, mode):
    """{(stack, kind): dir} from the real `bob query-path`"""
    res = {}
    # one invocation for all three kinds (process creation is what limits this sandbox)
    rc, out = e1.run_bob(proj, ['query-path', '--develop' if mode == 'dev' else '--release', '-q', '-f', '{name}|{src}|{build}|{dist}', '//*'] + w1.args(v, dl))
    for l in out.splitlines():
        if l.count('|') == 3:
            n, *ps = l.split('|')
            for kind, p in zip(('src', 'build', 'dist'), ps):
                if p.strip(): res[(n.strip(), kind)] = p.strip()
    return res


def variant_sig(stack, v, kind='dist'):
    """the variant-defining inputs of the step `kind` of the package at `stack` in feature vector v (ground truth of the generator)"""
    name = stack.split('/')[-1]
    if kind == 'src':
        # checkout steps consume none of the toggled variables
        return {'lib': ('lib-src',), 'lib2': ('lib2-src',), 'dl': ('dl-src', v['urlsrc'])}.get(name)
    if name == 'lib':
        p = 'y' if stack == 'root/lib' else ('z' if stack == 'root/via3/lib' else ('x' if v['reparam'] else ''))
        return ('lib', v['libscript'], (v['invars'], v['invars'] and v['var']), p, v['clssetup'], v['toolpath'])
    if name == 'app': return ('app', v['reparam'], v['lib2'], v['provide'], v['libscript'], v['invars'], v['toolpath'], v['clssetup'], v['urlsrc'] and v['lib2'], v['defval'] and v['lib2'])
    if name == 'root': return None      # changes with everything
    if name == 'gen': return ('gen',)
    if name in ('alpha', 'beta'): return (name,)          # identical packages of different recipes: separate directories in develop mode
    if name == 'via3': return ('via3', v['libscript'], (v['invars'], v['invars'] and v['var']), v['clssetup'], v['toolpath'])
    if name == 'lib2': return ('lib2', v['defval'], v['urlsrc'])
    if name == 'dl': return ('dl', v['urlsrc'])
    return None


def listing(d):
    """names + types + sizes of everything below d (for 'tree identical' checks)"""
    out = []
    for dp, dn, fn in os.walk(d):
        dn.sort()
        for n in sorted(dn + fn):
            p = os.path.join(dp, n)
            st = os.lstat(p)
            out.append((os.path.relpath(p, d), st.st_mode, st.st_size if not os.path.isdir(p) else 0))
    return out


def dirs_of(proj):
    res = set()
    for top in ('dev', 'work'):
        for dp, dn, fn in os.walk(os.path.join(proj, top)):
            if os.path.basename(dp) == 'workspace':
                res.add(os.path.relpath(dp, proj)); dn[:] = []
    return res


def history_worker(job):
    hist, ref = job
    base = os.path.join(runner.scratch(), 'c16-%d' % os.getpid())
    shutil.rmtree(base, ignore_errors=True)
    os.makedirs(base + '/mark')
    dl = base + '/dl'
    w1.downloads(dl)
    env = {'VERIF_LOG': base + '/log', 'VERIF_MARK': base + '/mark'}
    D = e1.Dir(base + '/proj'); D.reset()
    v = w1.zero()
    D.sync(w1.files(v))
    viol = []
    nrun = 0
    built = {'dev': False, 'build': False}
    prev_paths = None
    prev_v = None

    def bob(mode):
        nonlocal nrun
        rc, out, log = c01.build(D, v, mode, env, base + '/log')
        nrun += 1
        return rc, out, log

    def check_result(mode, out, where):
        rp = e1.result_path(out)
        got = e1.tree_canon(os.path.join(D.d, rp[0])) if rp else None
        want = ref[(c01.vec_key(v), mode)][1]
        if got != want:
            viol.append(('result-differs-from-clean:' + where, 'history %s: %s result differs from the clean build: %s' % (list(hist), mode, c01._diff(got, want))))
            return False
        return True

    rc, out, log = bob('dev'); built['dev'] = True
    if rc != 0: return hist, nrun, [('base-build-fails', out[-300:])]
    prev_paths = qpaths(D.d, v, dl, 'dev'); nrun += 1
    prev_v = dict(v)
    for i, a in enumerate(hist):
        h = list(hist[:i + 1])
        if a in EDITS:
            v[a] ^= 1
            D.sync(w1.files(v))
            rc, out, log = bob('dev')
            if rc != 0: viol.append(('build-fails', 'history %s: %s' % (h, out[-300:]))); break
            if not check_result('dev', out, 'after-' + a): break
            paths = qpaths(D.d, v, dl, 'dev'); nrun += 1
            for (stack, kind), p in paths.items():
                sig = variant_sig(stack, v, kind)
                if sig is not None and (stack, kind) in prev_paths and sig == variant_sig(stack, prev_v, kind) and prev_paths[(stack, kind)] != p:
                    viol.append(('variant-changed-directory', 'history %s: %s %s moved from %s to %s although its variant did not change' % (h, stack, kind, prev_paths[(stack, kind)], p)))
            # two different variants never share a directory
            byp = {}
            for (stack, kind), p in paths.items():
                sig = variant_sig(stack, v, kind)
                if sig is None: continue
                o = byp.setdefault((kind, p), (stack, sig))
                if o[1] != sig:
                    viol.append(('variants-share-directory', 'history %s: %s and %s share %s' % (h, o[0], stack, p)))
            prev_paths, prev_v = paths, dict(v)
        elif a == 'release':
            rc, out, log = bob('build'); built['build'] = True
            if rc != 0: viol.append(('build-fails', 'history %s: release build: %s' % (h, out[-300:]))); break
            if not check_result('build', out, 'release'): break
        elif a.startswith('clean'):
            args = {'clean': [], 'clean-dry': ['--dry-run'], 'clean-s': ['-s'], 'clean-release': ['--release'], 'clean-release-dry': ['--release', '--dry-run']}[a]
            need = {}
            for mode in ('dev', 'build'):
                if built[mode]:
                    for (stack, kind), p in qpaths(D.d, v, dl, mode).items(): need[p] = (stack, kind, mode)
                    nrun += 1
            before = dirs_of(D.d)
            lst = listing(D.d) if 'dry' in a else None
            rc, out = e1.run_bob(D.d, ['clean'] + args + w1.args(v, dl), env); nrun += 1
            if rc != 0: viol.append(('clean-fails', 'history %s: %s' % (h, out[-300:]))); break
            after = dirs_of(D.d)
            removed = before - after
            if 'dry' in a:
                if listing(D.d) != lst:
                    viol.append(('dry-run-changes-tree', 'history %s: %s changed the project tree (removed %s)' % (h, a, sorted(removed))))
                would = {l.strip() for l in out.splitlines() if l.strip().startswith(('dev/', 'work/'))}
                lost = sorted(p for p in need if any(p == w or p.startswith(w.rstrip('/') + '/') for w in would))
                if lost: viol.append(('dry-run-lists-needed-directory', 'history %s: %s lists %s which belong to current packages %s' % (h, a, lost, [need[p][:3] for p in lost])))
            lost = sorted(p for p in removed if p in need)
            if lost:
                viol.append(('clean-removes-needed-directory:' + need[lost[0]][2], 'history %s: %s removed %s of current packages %s' % (h, a, lost, [need[p] for p in lost][:3])))
            if '-s' not in args:
                srcs = sorted(p for p in removed if '/src/' in '/' + p)
                if srcs: viol.append(('clean-removes-source-directory', 'history %s: %s removed %s without -s' % (h, a, srcs)))
            # nothing up to date was lost: rebuilding executes nothing
            for mode in ('dev', 'build'):
                if built[mode]:
                    rc, out, log = bob(mode)
                    redo = [l for l in log if l.endswith((' build', ' package')) or l == 'lib2 checkout']
                    if rc != 0: viol.append(('build-fails', 'history %s: %s after %s: %s' % (h, mode, a, out[-200:])))
                    elif redo: viol.append(('clean-lost-up-to-date-result:' + mode, 'history %s: %s after %s re-executed %s' % (h, mode, a, redo)))
                    elif not check_result(mode, out, 'after-' + a): pass
    shutil.rmtree(base, ignore_errors=True)
    seen = {}
    for k, w in viol: seen.setdefault(k, (k, w))
    return hist, nrun, list(seen.values())


def run(ctx):
    quick = ctx.tier == 'quick'
    cleans = ['clean', 'clean-dry', 'clean-s', 'clean-release']
    hists = []
    # variant churn: edits only (directory stability, no sharing, emptied on hand-over)
    for L in (1, 2) if quick else (1, 2, 3):
        for h in itertools.product(EDITS[:4] if quick else EDITS, repeat=L):
            if quick and L == 2 and not (h[0] == h[1] or {h[0], h[1]} <= {'twovar', 'reparam', 'lib2'}): continue
            hists.append(h)
    # three variants of one recipe in consecutive directories, a fourth one arriving later; identical packages of two recipes
    hists += [('twovar', 'threevar'), ('twovar', 'threevar', 'reparam'), ('threevar', 'twovar', 'libscript'), ('twins',), ('twins', 'clean'), ('twins', 'clean-dry'),
              ('twins', 'release', 'clean'), ('twovar', 'threevar', 'clean'), ('twovar', 'threevar', 'clean-s')]
    # longer variant churn over the features that add/remove variants of one recipe: a variant leaves, another one arrives
    # (and inherits the free directory), the first one returns while the second is still there, ...
    for h in itertools.product(['twovar', 'threevar'] if quick else ['twovar', 'threevar', 'reparam'], repeat=4):
        hists.append(h)
    # cleans after (edit*, [release])
    for pre in [()] + [(e,) for e in EDITS[:3]] + ([] if quick else [(a, b) for a in EDITS[:3] for b in EDITS[:3]]):
        for rel in ((), ('release',)):
            for c in cleans + (['clean-release-dry'] if rel else []):
                if quick and pre and not rel and c in ('clean-release',): continue
                hists.append(pre + rel + (c,))
    # a variant disappears, clean, it reappears
    for e in EDITS[:3]:
        hists.append((e, e, 'clean', e))
        hists.append((e, 'clean', e))
    hists = sorted(set(hists))
    if ctx.opts.get('only'):      # debugging aid: restrict the history list
        hists = [h for h in hists if ctx.opts['only'] in ','.join(h)]
    vecs = set()
    for h in hists:
        v = w1.zero()
        vecs.add((c01.vec_key(v), 'dev'))
        for a in h:
            if a in EDITS:
                v[a] ^= 1; vecs.add((c01.vec_key(v), 'dev'))
            if a == 'release': vecs.add((c01.vec_key(v), 'build'))
        if 'release' in h: vecs.add((c01.vec_key(v), 'build'))
    ctx.log('%d histories, %d clean reference builds' % (len(hists), len(vecs)))
    ref = dict(runner.pmap(c01.clean_build, sorted(vecs)))
    nrun = len(ref)
    for hist, n, viols in runner.pmap_unordered(history_worker, [(h, ref) for h in hists], chunksize=2):
        nrun += n
        for key, what in viols:
            ctx.violation(key, what, dict(history=list(hist)))
    ctx.log('%d real bob invocations' % nrun)
    return ctx.finish(dict(
        states=sum(len(h) + 1 for h in hists), transitions=nrun, traces_validated_against_impl=len(hists), evaluations=nrun, distinct_nontrivial=len(hists),
        rule='one history = edits (each followed by a real bob dev), optional release build, clean variants; after every action the invariants are evaluated with real '
             'bob query-path / directory listings / rebuilds; all histories of the stated shapes are enumerated',
        exhaustive=True, samples=[dict(history=['twovar', 'twovar', 'clean', 'twovar']), dict(history=['release', 'clean'])],
        bounds=dict(edits=EDITS, cleans=cleans, histories=len(hists))),
        assumptions=['variant identity per package stack is the generator\'s ground truth (the features that enter the step digests)'])


def replay(ctx, body):
    h = tuple(body['replay']['history'])
    vecs = set()
    v = w1.zero(); vecs.add((c01.vec_key(v), 'dev')); vecs.add((c01.vec_key(v), 'build'))
    for a in h:
        if a in EDITS:
            v[a] ^= 1; vecs.add((c01.vec_key(v), 'dev')); vecs.add((c01.vec_key(v), 'build'))
    ref = dict(c01.clean_build(x) for x in vecs)
    print(history_worker((h, ref)))
    return 0
