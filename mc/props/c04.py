"""C04 - package graph caches are transparent.

Explicit-state search over histories: a state is (set of applied file edits, invocation flags);
actions toggle one edit (recipe, class, included file, default.yaml value, optional include file
appearing/disappearing) or one flag (sandbox, -D define, -c config file).  After every action one
real Bob invocation (a fresh process parsing in the persistent directory, with .bob-cache.sqlite3,
.bob-packages*.pickle, .bob-tree.sqlite3 warm from the whole history) dumps the complete package
graph (names, stacks, direct/indirect dependencies, scripts, environments, tools, sandbox, ids,
query results).  Oracle: it equals the dump of the same project state in a fresh directory without
any .bob-* file and with the in-memory memo (PackageMatcher) disabled.
"""
import os, sys, json, subprocess, shutil, itertools
from .. import runner, projgen as pg

LEVEL = 'model_checking'

EDIT_ACTIONS = ['lib-build-script', 'class-base-build', 'include-file', 'opt-leaf', 'common-a', 'root-cv-value', 'tool2-path', 'global-value',
                'weak-value', 'root-dep-order2']
FLAG_ACTIONS = ['sandbox', 'define', 'config', 'optinc']
ACTIONS = EDIT_ACTIONS + FLAG_ACTIONS


def project_files(state):
    files = pg.base()
    files['default.yaml'] += 'include:\n    - optinc\n'
    files['recipes/sbaware.yaml'] = files['recipes/sbaware.yaml'].replace('buildScript:', 'depends:\n    - name: leaf\n      if: "$(is-sandbox-enabled)"\nbuildScript:')
    files['extra.yaml'] = 'environment:\n    OPT: "1"\n    CFG: "c"\n'
    edits = {n: e for n, _, e in pg.EDITS}
    for n in EDIT_ACTIONS:
        if n in state: edits[n](files)
    if 'optinc' in state:
        files['optinc.yaml'] = 'environment:\n    GLOBAL: "from-include"\n'
    return files


def args_of(state, nomemo=False):
    return dict(sandbox='sandbox' in state, defines={'GLOBAL': 'from-define'} if 'define' in state else {},
                configs=['extra'] if 'config' in state else [], nomemo=nomemo)


def invoke(d, state, nomemo=False):
    env = dict(os.environ, PYTHONHASHSEED='0', PYTHONPATH=runner.PYM + ':' + runner.VERIF, VERIF_REPO=runner.REPO)
    r = subprocess.run(['/venv/bin/python', '-m', 'mc.c04_dump', d, json.dumps(args_of(state, nomemo))], cwd=runner.VERIF, env=env,
                       stdout=subprocess.PIPE, stderr=subprocess.PIPE, text=True)
    if r.returncode != 0:
        return dict(error='process failed: ' + r.stderr[-300:])
    return json.loads(r.stdout)


class Dir:
    """persistent project directory with a logical mtime clock (every edit changes the stat data)"""

    def __init__(self, d):
        self.d = d
        self.clock = 1_600_000_000 * 10**9
        self.files = {}
        shutil.rmtree(d, ignore_errors=True)
        os.makedirs(d)

    def sync(self, files):
        for n in set(self.files) - set(files):
            os.unlink(os.path.join(self.d, n))
        for n, t in files.items():
            if self.files.get(n) != t:
                p = os.path.join(self.d, n)
                os.makedirs(os.path.dirname(p), exist_ok=True)
                with open(p, 'w') as f: f.write(t)
                self.clock += 10**9
                os.utime(p, ns=(self.clock, self.clock))
        self.files = dict(files)


def cold_dump(state):
    d = os.path.join(runner.scratch(), 'c04cold-%d' % os.getpid(), 'proj')
    shutil.rmtree(d, ignore_errors=True)
    pg.materialize(project_files(state), d)
    r = invoke(d, state, nomemo=True)
    shutil.rmtree(os.path.dirname(d), ignore_errors=True)
    return tuple(sorted(state)), r


def diff(a, b):
    if 'error' in a or 'error' in b:
        return ['error: warm=%s cold=%s' % (a.get('error'), b.get('error'))]
    out = []
    for k in sorted(set(a['packages']) | set(b['packages'])):
        x, y = a['packages'].get(k), b['packages'].get(k)
        if x is None or y is None:
            out.append('package %s only in %s dump' % (k, 'warm' if y is None else 'cold')); continue
        for f in ('name', 'direct', 'indirect', 'meta'):
            if x[f] != y[f]: out.append('%s: %s differs' % (k, f))
        for l in sorted(set(x['steps']) | set(y['steps'])):
            s, t = x['steps'].get(l), y['steps'].get(l)
            if s is None or t is None:
                out.append('%s:%s only in one dump' % (k, l)); continue
            for f in sorted(s):
                if s[f] != t[f]: out.append('%s:%s %s differs (warm %s cold %s)' % (k, l, f, str(s[f])[:60], str(t[f])[:60]))
    for q in sorted(a['queries']):
        if a['queries'][q] != b['queries'].get(q):
            out.append('query %s: warm %s cold %s' % (q, str(a['queries'][q])[:120], str(b['queries'].get(q))[:120]))
    return out


_cold = {}


def history_worker(job):
    hist, cold = job
    d = os.path.join(runner.scratch(), 'c04-%d' % os.getpid(), 'proj')
    D = Dir(d)
    state = set()
    viol = []
    n = 0
    D.sync(project_files(state))
    invoke(d, state)                    # initial invocation warms every cache
    for i, a in enumerate(hist):
        state ^= {a}
        D.sync(project_files(state))
        warm = invoke(d, state)
        n += 1
        c = cold[tuple(sorted(state))]
        df = diff(warm, c)
        if df:
            kind = 'error' if df[0].startswith('error') else ('query' if all(x.startswith('query') for x in df) else 'graph')
            viol.append(('warm-differs-from-cold:%s:after-%s' % (kind, a), list(hist[:i + 1]), df[:4]))
            break
    shutil.rmtree(os.path.dirname(d), ignore_errors=True)
    return hist, n, viol


def run(ctx):
    quick = ctx.tier == 'quick'
    depth = int(ctx.opts.get('depth', 2 if quick else 3))
    hists = []
    for L in range(1, depth + 1):
        for h in itertools.product(ACTIONS, repeat=L):
            if any(h[i] == h[i + 1] for i in range(L - 1)) and L > 2: continue      # immediate undo is covered at length 2
            if L == depth or L == 1: hists.append(h)
    # prefixes of longer histories are checked inside the longer ones (every step is compared)
    states = set()
    for h in hists:
        s = set()
        for a in h:
            s ^= {a}; states.add(tuple(sorted(s)))
    ctx.log('%d histories of length %d (+%d of length 1), %d distinct project states' % (len([h for h in hists if len(h) == depth]), depth, len(ACTIONS), len(states)))
    cold = dict(runner.pmap(cold_dump, [set(s) for s in states]))
    for s, c in cold.items():
        if 'error' in c:
            ctx.violation('cold-dump-failed', 'state %s: %s' % (list(s), c['error']), dict(state=list(s)))
    nwarm = 0
    for hist, n, viol in runner.pmap_unordered(history_worker, [(h, cold) for h in hists], chunksize=2):
        nwarm += n
        for key, h, df in viol:
            ctx.violation(key, 'history %s: %s' % (h, df), dict(history=h))
    ctx.log('%d warm invocations compared with %d cold dumps' % (nwarm, len(cold)))
    return ctx.finish(dict(
        states=len(states), transitions=nwarm, traces_validated_against_impl=nwarm + len(cold), evaluations=nwarm, distinct_nontrivial=len(states),
        rule='states = distinct (edit set, flag set) project states; transitions = real Bob invocations (fresh process, persistent directory with all caches warm from '
             'the history), each compared with the cold, memo-free dump of the same state',
        exhaustive=True, samples=[dict(history=['sandbox', 'opt-leaf']), dict(history=['common-a', 'common-a'])],
        bounds=dict(depth=depth, actions=ACTIONS), histories=len(hists)),
        assumptions=['every file edit changes the stat tuple (logical mtime clock)', 'one process per invocation; PYTHONHASHSEED fixed'])


def replay(ctx, body):
    h = tuple(body['replay']['history'])
    states = set()
    s = set()
    for a in h:
        s ^= {a}; states.add(tuple(sorted(s)))
    cold = dict(cold_dump(set(x)) for x in states)
    print(history_worker((h, cold)))
    return 0
