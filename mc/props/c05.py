"""C05 - failed or killed builds never poison the workspace.

Engine E1 on world W1 with fault actions.  From the built base state (and, thorough, from every
state one edit away) the next edit is applied and the incremental build is aborted in every
enumerated way:
  fail(s)            step s writes partial output and exits 1 (marker file: recipe text and ids unchanged)
  kill-in-script(s)  step s writes partial output and SIGKILLs Bob
  kill-at-save(n,w)  Bob is SIGKILLed right before the n-th state write / right after its rename,
                     for EVERY n up to the number of saves of that invocation (measured per case)
Then the stale lock is removed (documented), the markers are cleared, optionally one more edit is
applied (including the revert of the aborted edit), and a normal build runs.  Invariants: the
recovery build exits 0; the result equals the clean build of the final feature vector; a step
whose workspace was left incomplete is executed again.
"""
import os, sys, shutil, itertools
from .. import runner, e1, w1
from . import c01

LEVEL = 'model_checking'
FAIL_STEPS = ['lib-build', 'lib-package', 'app-build', 'root-build', 'root-package']
WRAP = None


def wrapper_env():
    return {'VERIF_PYM': runner.PYM, 'VERIF_REPO_DIR': runner.REPO}


def wrapper_cmd():
    return ['/venv/bin/python', os.path.join(runner.VERIF, 'mc', 'bobwrap.py')]


class Case:
    def __init__(self, mode):
        self.base = os.path.join(runner.scratch(), 'c05-%d' % os.getpid())
        self.mode = mode
        self.proj = self.base + '/proj'
        self.env = {'VERIF_LOG': self.base + '/log', 'VERIF_MARK': self.base + '/mark'}
        self.env.update(wrapper_env())
        # a `tar` in front of the real one: extracts only the first member and fails / kills Bob when a marker file asks for it
        self.env['PATH'] = self.base + '/fakebin:' + e1.BASE_ENV['PATH']
        self.D = e1.Dir(self.proj)
        self.snap = self.base + '/snap-' + mode

    def run(self, v, extra_env=None):
        open(self.base + '/log', 'w').close()
        fake = self.base + '/fakebin/tar'
        if not os.path.exists(fake):
            os.makedirs(self.base + '/fakebin', exist_ok=True)
            with open(fake, 'w') as f:
                f.write('#!/bin/bash\nM=%s/mark\n'
                        'if [ -e "$M/fail-extract" ]; then /bin/tar "$@" %s; exit 2; fi\n'
                        'if [ -e "$M/kill-extract" ]; then /bin/tar "$@" %s; kill -9 $PPID; sleep 2; exit 2; fi\n'
                        'exec /bin/tar "$@"\n' % (self.base, w1.ARCHIVE_MEMBERS[0], w1.ARCHIVE_MEMBERS[0]))
            os.chmod(fake, 0o755)
        env = dict(self.env); env.update(extra_env or {})
        rc, out = e1.run_bob(self.proj, c01.MODES[self.mode] + w1.args(v, self.base + '/dl'), env, wrapper=wrapper_cmd())
        return rc, out, e1.read_log(self.base + '/log')

    def prepare(self, prefix):
        """base build (+ prefix edits, each built), snapshotted per (mode, prefix)"""
        key = self.snap + '-' + '_'.join(prefix)
        if not os.path.isdir(key):
            if not prefix:
                shutil.rmtree(self.base, ignore_errors=True)
                os.makedirs(self.base + '/mark')
                w1.downloads(self.base + '/dl')
                self.D.reset(); self.D.sync(w1.files(w1.zero()))
                rc, out, log = self.run(w1.zero())
                assert rc == 0, out[-300:]
            else:
                self.prepare(prefix[:-1])
                v = c01.apply(prefix)
                self.D.sync(w1.files(v))
                rc, out, log = self.run(v)
                assert rc == 0, out[-300:]
            e1.snapshot(self.proj, key)
        e1.restore(key, self.proj)
        self.D.files = w1.files(c01.apply(prefix))
        self.D.clock += 10**12
        for f in os.listdir(self.base + '/mark'): os.unlink(os.path.join(self.base + '/mark', f))


def case_worker(job):
    mode, prefix, edit, fault, after, ref = job
    c = Case(mode)
    try:
        c.prepare(tuple(prefix))
    except AssertionError as e:
        return job[:5], 0, [('setup-build-fails', str(e))], None
    nrun = 0
    v = c01.apply(tuple(prefix) + (edit,))
    c.D.sync(w1.files(v))
    extra = {}
    kind = fault[0]
    if kind in ('fail', 'killscript'):
        open(os.path.join(c.base, 'mark', ('fail-' if kind == 'fail' else 'kill-') + fault[1]), 'w').close()
    elif kind == 'seq':
        pass            # driven below, one aborted invocation per element
    elif kind == 'urlmissing':
        w1.downloads(c.base + '/dl', missing=(v['urlsrc'],))
    elif kind == 'killsave':
        extra['VERIF_KILL_AT_SAVE'] = '%d:%s' % (fault[1], fault[2])
    elif kind == 'count':
        extra['VERIF_COUNT_SAVES'] = c.base + '/saves'
        if os.path.exists(c.base + '/saves'): os.unlink(c.base + '/saves')
    if kind != 'seq':
        rc, out, log1 = c.run(v, extra)
        nrun += 1
    else:
        rc, log1 = 1, []
    if kind == 'count':
        n = int(open(c.base + '/saves').read()) if os.path.exists(c.base + '/saves') else 0
        return job[:5], nrun, [], n
    aborted = rc != 0
    if kind == 'seq':
        # consecutive aborts: each further invocation is aborted by the next fault of the sequence
        allab = True
        for i, fl in enumerate(fault[1:]):
            for f in os.listdir(c.base + '/mark'): os.unlink(os.path.join(c.base + '/mark', f))
            try: os.unlink(os.path.join(c.proj, '.bob-state.lock'))
            except FileNotFoundError: pass
            extra = {}
            if fl[0] in ('fail', 'killscript'):
                open(os.path.join(c.base, 'mark', ('fail-' if fl[0] == 'fail' else 'kill-') + fl[1]), 'w').close()
            elif fl[0] == 'killsave':
                extra['VERIF_KILL_AT_SAVE'] = '%d:%s' % (fl[1], fl[2])
            rc, out, lg = c.run(v, extra)
            nrun += 1
            log1 = log1 + lg
            allab = allab and rc != 0
        aborted = allab
    viol = []
    # recovery
    w1.downloads(c.base + '/dl')
    for f in os.listdir(c.base + '/mark'): os.unlink(os.path.join(c.base + '/mark', f))
    try: os.unlink(os.path.join(c.proj, '.bob-state.lock'))
    except FileNotFoundError: pass
    if after is not None:
        v[after] ^= 1
        c.D.sync(w1.files(v))
    rc2, out2, log2 = c.run(v)
    nrun += 1
    desc = 'mode %s state %s edit %s fault %s then %s' % (mode, list(prefix), edit, fault, 'rebuild' if after is None else 'edit %s + rebuild' % after)
    if rc2 != 0:
        viol.append(('recovery-build-fails:%s' % kind, desc + ': recovery build exits %d: %s' % (rc2, out2[-250:])))
    else:
        rp = e1.result_path(out2)
        got = e1.tree_canon(os.path.join(c.proj, rp[0])) if rp else None
        want = ref[(c01.vec_key(v), mode.split('-')[0])][1]
        if got != want:
            viol.append(('recovery-differs-from-clean:%s' % kind, desc + ': ' + c01._diff(got, want)))
        # the interrupted step must run again unless the final edit made it unnecessary to compare (only checked without a further edit)
        if aborted and after is None and kind in ('fail', 'killscript'):
            st = fault[1].replace('-', ' ')
            if st in log1 and st not in log2:
                viol.append(('incomplete-step-not-reexecuted:%s' % kind, desc + ': step "%s" was aborted but did not run again' % st))
    return job[:5], nrun, viol, (aborted, tuple(log1))


def run(ctx):
    quick = ctx.tier == 'quick'
    feats = w1.FEATURES
    mode = 'dev'
    modes = ['dev'] if quick else ['dev', 'build']
    # thorough: release mode as well, four 1-edit prefix states, kill points for four edits (the full product of the design
    # would be ~75 000 real builds; this sandbox does 2.5 per second)
    prefixes = [()] if quick else [()] + [(f,) for f in ('libscript', 'lib2', 'srcmod', 'twovar')]
    edits = feats
    killsave_edits = ['libscript'] if quick else ['libscript', 'srcmod', 'lib2', 'twovar']
    # 1. count state saves per (mode, prefix, edit)
    cjobs = [(m, p, e, ('count',), None, None) for m in modes for p in prefixes for e in edits
             if e in killsave_edits and not p]
    counts = {}
    nrun = 0
    for key, n, viol, cnt in runner.pmap_unordered(case_worker, cjobs, chunksize=1):
        nrun += n
        counts[(key[0], tuple(key[1]), key[2])] = cnt
        for k, what in viol: ctx.violation(k, what, dict(case=[str(x) for x in key]))
    jobs = []
    for m in modes:
        for p in prefixes:
            for e in edits:
                steps = FAIL_STEPS if not p else FAIL_STEPS[:2]
                for s in (steps if not quick else ['lib-build', 'app-build', 'root-package']):
                    jobs.append((m, p, e, ('fail', s), None))
                    jobs.append((m, p, e, ('fail', s), e))            # revert the aborted edit, then rebuild
                for s in (['lib-build', 'root-build'] if e in ('libscript', 'srcmod', 'lib2', 'twovar') and not p else []):
                    jobs.append((m, p, e, ('killscript', s), None))
                n = counts.get((m, tuple(p), e))
                if n:
                    for k in range(1, n + 1):
                        for w in ('before', 'after'):
                            jobs.append((m, p, e, ('killsave', k, w), None))
                            if not quick: jobs.append((m, p, e, ('killsave', k, w), e))
    # download faults: the url SCM source of the new variant is missing during the aborted run (needs the dl package: lib2 on)
    for m in modes:
        for p in ([('lib2',)] if quick else [('lib2',), ('lib2', 'srcmod')]):
            for e in ('urlsrc',):
                jobs.append((m, p, e, ('urlmissing',), None))
                jobs.append((m, p, e, ('urlmissing',), e))
                jobs.append((m, p, e, ('fail', 'lib-build'), None))
        # the extraction of a downloaded archive is aborted half way (extractor fails / Bob dies while it runs): when the
        # archive changes (urlsrc with dl present) and when the dl package appears for the first time (lib2)
        for p, e in ((('lib2',), 'urlsrc'), ((), 'lib2'), (('urlsrc',), 'lib2')):
            for fk in ('fail', 'killscript'):
                jobs.append((m, p, e, (fk, 'extract'), None))
                jobs.append((m, p, e, (fk, 'extract'), e))
        # checkout scripts that fail / die after partial output (the scripted part of a checkout, next to an SCM)
        for p, e, st in [((), 'coscript', 'lib-checkout'), ((), 'srcmod', 'lib-checkout'), ((), 'srcadd', 'lib-checkout'),
                         ((), 'lib2', 'lib2-checkout'), (('lib2',), 'coscript', 'lib2-checkout')]:
            jobs.append((m, p, e, ('fail', st), None))
            jobs.append((m, p, e, ('fail', st), e))
            jobs.append((m, p, e, ('killscript', st), None))
        # several consecutive aborts before the successful run: every ordered pair of faults along the path of the edit
        # (thorough: four edits, triples over four faults, and a kill at every save point followed by a failing step)
        SEQ = [('fail', 'lib-checkout'), ('fail', 'lib-build'), ('killscript', 'lib-build'), ('fail', 'lib-package'), ('fail', 'app-build'), ('fail', 'root-package')]
        for e in (['srcmod'] if quick else ['srcmod', 'coscript', 'libscript', 'twovar']):
            for f1 in SEQ:
                for f2 in SEQ:
                    jobs.append((m, (), e, ('seq', f1, f2), None))
        if not quick:
            S4 = [SEQ[0], SEQ[2], SEQ[3], SEQ[4]]
            for f1 in S4:
                for f2 in S4:
                    for f3 in S4:
                        jobs.append((m, (), 'srcmod', ('seq', f1, f2, f3), None))
            n = counts.get((m, (), 'libscript'))
            for k in range(1, (n or 0) + 1):
                jobs.append((m, (), 'libscript', ('seq', ('killsave', k, 'before'), ('fail', 'lib-package')), None))
                jobs.append((m, (), 'libscript', ('seq', ('killsave', k, 'after'), ('killscript', 'lib-build')), None))
    if ctx.opts.get('only'):      # debugging aid: restrict the case list (evidence then states exhaustive for that list only)
        jobs = [j for j in jobs if ctx.opts['only'] in str(j)]
    vecs = set()
    for (m, p, e, f, a) in jobs:
        v = c01.apply(tuple(p) + (e,))
        if a is not None: v[a] ^= 1
        vecs.add((c01.vec_key(v), m.split('-')[0]))
    ctx.log('%d abort+recover cases (save counts: %s), %d clean builds' % (len(jobs), sorted(set(counts.values())), len(vecs)))
    ref = dict(runner.pmap(c01.clean_build, sorted(vecs)))
    nrun += len(ref)
    aborted = 0
    outcomes = set()
    for key, n, viol, info in runner.pmap_unordered(case_worker, [j + (ref,) for j in sorted(jobs, key=str)], chunksize=2):
        nrun += n
        if info and info[0]: aborted += 1
        if info: outcomes.add((key[3][0], info[0], len(info[1])))
        for k, what in viol:
            ctx.violation(k, what, dict(case=[str(x) for x in key]))
    runner.cleanup_semaphores(ctx.t0)
    ctx.log('%d real bob invocations, %d of %d cases really aborted the build, %d distinct (fault kind, aborted, steps run) outcomes' % (nrun, aborted, len(jobs), len(outcomes)))
    return ctx.finish(dict(
        states=len(jobs), transitions=nrun, traces_validated_against_impl=len(jobs), evaluations=nrun, distinct_nontrivial=aborted,
        rule='one case = (built state, next edit, fault) -> aborted incremental build -> lock removed, markers cleared, optional further edit -> normal build compared with the '
             'clean build of the final feature vector; non-trivial = cases where the fault really aborted the build',
        exhaustive=True, samples=[dict(edit='libscript', fault=['killsave', 3, 'before']), dict(edit='srcmod', fault=['fail', 'lib-build'], then='revert srcmod')],
        bounds=dict(modes=modes, prefix_states=[list(p) for p in prefixes], edits=edits, fail_steps=FAIL_STEPS + ['lib-checkout', 'lib2-checkout', 'extract (tar of the url SCM)'], abort_sequences='all ordered pairs of 6 faults (thorough: 4 edits, triples of 4, kill at every save then a failing step)', kill_at_save='every save point 1..N, before and after, for edits %s' % killsave_edits,
                    saves_per_invocation=sorted(set(counts.values()))), cases=len(jobs), aborted=aborted),
        assumptions=['SIGKILL of the Bob process: page cache survives (process crash); torn state files are covered by C10',
                     'the user removes .bob-state.lock after a crash (documented)'])


def replay(ctx, body):
    print(body['replay'])
    return 0
