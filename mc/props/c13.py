"""C13 - steps run in exactly the declared environment.

Bounded-exhaustive enumeration through real `bob dev` runs (real bash, real generated scripts):
  values      every one of ~50 hostile strings (each quote kind, $, ${x}, $(x), backtick, backslash at
              the end, newline, tab, CR, leading -, glob characters, !, #, non-ASCII, 4-byte UTF-8,
              empty, 10 kB) in every one of the three steps - passed with -D (not substituted), so the
              expected value is the literal;
  placements  every assignment of two variables to {undeclared, checkoutVars, buildVars, packageVars,
              and the three ...VarsWeak} (49 recipes); expected visibility from the documented carry
              forward checkout -> build -> package;
  host env    canary variables x whitelist settings (default.yaml whitelist, -e, whitelistRemove, -E);
  tools/args  tools with path and libs on PATH / LD_LIBRARY_PATH, dependencies as arguments in order;
  fingerprint a fingerprint script sees exactly its fingerprintVars (also with a disabled second source);
  sandbox     slim / dev / strict modes (if user namespaces work here): visible project workspaces are
              own + declared dependencies, writable only the own workspace.
Every step dumps `env -0` and its arguments NUL separated; oracle: observed == expected, byte for byte.
"""
import os, sys, shutil, itertools, subprocess
from .. import runner, e1

LEVEL = 'model_checking'

VALUES = ["plain", "", " ", "a b", "'", '"', "''", '""', "'\"'", "it's", 'say "hi"', "$", "$X", "${X}", "$(x)", "$(echo pwned)", "`x`", "`echo pwned`",
          "\\", "a\\", "\\n", "a\\\\b", "line1\nline2", "\n", "trailing\n", "\ttab", "cr\rcr", "-n", "-e x", "--", "*", "?", "[a-z]", "{a,b}", "~", "!", "!!",
          "#", "# comment", ";", "a;b", "&", "|", ">", "<x", "(", ")", "ü", "日本語", "\U0001F600", "\x7f", "\x01\x02", "x" * 10000, "=", "a=b", "%s %d", "$'\\n'", "\\$HOME", "$HOME"]
PLACEMENTS = ['none', 'checkoutVars', 'buildVars', 'packageVars', 'checkoutVarsWeak', 'buildVarsWeak', 'packageVarsWeak']
STEP_ORDER = ['checkout', 'build', 'package']
BASH_OWN = {'PWD', 'OLDPWD', 'SHLVL', '_'}
BOB_VARS = {'BOB_CWD', 'PATH', 'LD_LIBRARY_PATH'}

DUMP = '''    env -0 > "$VERIF_OUT/%s.%s.env"
    printf '%%s\\0' "$@" > "$VERIF_OUT/%s.%s.args"
'''


def dump(pkg, step):
    return DUMP % (pkg, step, pkg, step)


def project():
    f = {}
    f['config.yaml'] = 'bobMinimumVersion: "0.25"\n'
    f['default.yaml'] = 'whitelist: ["CAN_WL", "VERIF_OUT"]\n'
    f['cfgrm.yaml'] = 'whitelistRemove: ["CAN_WL", "HOME"]\n'
    vnames = ['V%02d' % i for i in range(len(VALUES))]
    f['recipes/val.yaml'] = ('root: True\ncheckoutDeterministic: True\ncheckoutVars: [%s]\n' % ', '.join(vnames) +
                             'checkoutScript: |\n' + dump('val', 'checkout') + 'buildScript: |\n' + dump('val', 'build') + 'packageScript: |\n' + dump('val', 'package'))
    # placements
    roots = []
    for i, px in enumerate(PLACEMENTS):
        for j, py in enumerate(PLACEMENTS):
            name = 'plc%d%d' % (i, j)
            lists = {}
            if px != 'none': lists.setdefault(px, []).append('X')
            if py != 'none': lists.setdefault(py, []).append('Y')
            y = ''.join('%s: [%s]\n' % (k, ', '.join(v)) for k, v in sorted(lists.items()))
            f['recipes/%s.yaml' % name] = (y + 'checkoutDeterministic: True\ncheckoutScript: |\n' + dump(name, 'checkout') + 'buildScript: |\n' + dump(name, 'build') +
                                           'packageScript: |\n' + dump(name, 'package'))
            roots.append(name)
    f['recipes/plc.yaml'] = 'root: True\ndepends: [%s]\nbuildScript: "true"\npackageScript: "true"\n' % ', '.join(roots)
    # tools and arguments
    f['recipes/t1.yaml'] = 'buildScript: "mkdir -p bin lib lib64"\npackageScript: "cp -a $1/* ."\nprovideTools:\n    t1:\n        path: "bin"\n        libs: ["lib", "lib64"]\n'
    f['recipes/t2.yaml'] = 'buildScript: "mkdir -p sbin"\npackageScript: "cp -a $1/* ."\nprovideTools:\n    t2: "sbin"\n'
    for d in ('d1', 'd2', 'd3'):
        f['recipes/%s.yaml' % d] = 'buildScript: "echo %s > f"\npackageScript: "cp $1/f ."\n' % d
    f['recipes/user.yaml'] = ('root: True\ndepends:\n    - name: t1\n      use: [tools]\n    - d2\n    - name: t2\n      use: [tools]\n    - d1\n    - d3\n'
                              'buildTools: [t1, t2]\npackageTools: [t2]\ncheckoutDeterministic: True\ncheckoutScript: |\n' + dump('user', 'checkout') +
                              'buildScript: |\n' + dump('user', 'build') + 'packageScript: |\n' + dump('user', 'package'))
    # fingerprint
    f['classes/fpoff.yaml'] = 'fingerprintIf: False\nfingerprintVars: [SECRET]\nfingerprintScript: "echo off"\n'
    f['recipes/fp.yaml'] = ('root: True\ninherit: [fpoff]\nbuildVars: [SECRET, SHOWN, FPOUT]\nfingerprintIf: True\nfingerprintVars: [SHOWN, FPOUT]\n'
                            'fingerprintScript: |\n    env -0 > "$FPOUT"\n    echo fingerprint\n'
                            'buildScript: |\n' + dump('fp', 'build') + 'packageScript: |\n' + dump('fp', 'package'))
    # sandbox probe: what of the project can a step see / write?
    probe = ('    { for d in $(find "$VERIF_PROJ" /bob -maxdepth 5 -name workspace -type d 2>/dev/null | LC_ALL=C sort); do\n'
             '        w=no; if ( : > "$d/.probe-$$" ) 2>/dev/null; then w=yes; rm -f "$d/.probe-$$"; fi\n'
             '        n=$(ls -A "$d" 2>/dev/null | wc -l)\n'
             '        echo "$d $n $w $(ls -A "$d" 2>/dev/null | tr "\\n" ",")x"; done; echo "CWD $BOB_CWD"; for a in "$@"; do echo "ARG $a"; done; } > "$BOB_CWD/.visible-%s" 2>/dev/null || true\n')
    f['recipes/sbdep.yaml'] = 'buildScript: "echo dep > f"\npackageScript: "cp $1/f ."\n'
    f['recipes/sbother.yaml'] = 'buildScript: "echo other > f"\npackageScript: "cp $1/f ."\n'
    # the dependency is available to the checkout step as well (checkoutDep): the checkout script may see the dependency's result, nothing else
    f['recipes/sbuser.yaml'] = ('depends:\n    - name: sbdep\n      checkoutDep: True\ncheckoutVars: [VERIF_PROJ]\ncheckoutDeterministic: True\ncheckoutScript: |\n' + probe % 'checkout' + '    echo s > src.txt\n'
                                'buildVars: [VERIF_PROJ]\nbuildScript: |\n' + probe % 'build' + '    echo x > out\npackageScript: |\n' + probe % 'package' + '    cp $1/out .\n    cp $1/.visible-build .\n')
    # sandbox image assembled from host directories; a tool with libs that is built OUTSIDE the sandbox (listed before the sandbox dependency)
    f['recipes/sbimage.yaml'] = ('buildScript: "mkdir -p usr bin sbin lib lib64 etc tmp"\npackageScript: "cp -a $1/* ."\n'
                                 'provideSandbox:\n    paths: ["/usr/local/bin", "/usr/bin", "/bin"]\n    mount: ["/usr", "/bin", "/sbin", "/lib", "/lib64", "/etc"]\n')
    f['recipes/hosttool.yaml'] = ('buildScript: |\n    mkdir -p bin lib\n    echo lib > lib/libx.so\n    printf \'#!/bin/sh\\necho ht\\n\' > bin/ht\n    chmod +x bin/ht\n'
                                  'packageScript: "cp -a $1/* ."\nprovideTools:\n    ht:\n        path: "bin"\n        libs: ["lib"]\n')
    f['recipes/imguser.yaml'] = ('root: True\ndepends:\n    - name: hosttool\n      use: [tools]\n    - name: sbimage\n      use: [sandbox]\n'
                                 'buildTools: [ht]\nbuildScript: |\n'
                                 '    { echo "PATH $PATH"; echo "LD $LD_LIBRARY_PATH"; IFS=:; for d in $LD_LIBRARY_PATH; do [ -e "$d/libx.so" ] && echo "LIBOK $d" || echo "LIBMISSING $d"; done;\n'
                                 '      command -v ht > /dev/null && echo "TOOLOK $(command -v ht)" || echo TOOLMISSING; } > "$BOB_CWD/.imgcheck"\n'
                                 'packageScript: "cp $1/.imgcheck ."\n')
    f['recipes/sbroot.yaml'] = 'root: True\ndepends: [sbother, sbuser]\nbuildScript: "true"\npackageScript: "true"\n'
    return f


def read_env(path):
    raw = open(path, 'rb').read()
    env = {}
    for item in raw.split(b'\0'):
        if not item: continue
        k, _, v = item.partition(b'=')
        env[k.decode('utf-8', 'surrogateescape')] = v.decode('utf-8', 'surrogateescape')
    return env


def read_args(path):
    raw = open(path, 'rb').read()
    return [a.decode('utf-8', 'surrogateescape') for a in raw.split(b'\0')[:-1]]


def visible(pl, step):
    """documented carry forward: a variable declared (strong or weak) for a step is visible in that step and all later ones"""
    if pl == 'none': return False
    decl = pl.replace('VarsWeak', '').replace('Vars', '')
    return STEP_ORDER.index(decl) <= STEP_ORDER.index(step)


def scenario(job):
    name = job
    base = os.path.join(runner.scratch(), 'c13-%s-%d' % (name, os.getpid()))
    shutil.rmtree(base, ignore_errors=True)
    os.makedirs(base + '/out')
    D = e1.Dir(base + '/proj'); D.reset(); D.sync(project())
    host = {'VERIF_OUT': base + '/out', 'CAN_WL': 'canary-wl', 'CAN_E': 'canary-e', 'CAN_NO': 'canary-no', 'SECRET_TOKEN': 'hunter2', 'USER': 'tester'}
    viol = []
    ncmp = 0

    def check_env(pkg, step, expect, allowed_host, exact_keys=None):
        nonlocal ncmp
        p = os.path.join(base, 'out', '%s.%s.env' % (pkg, step))
        if not os.path.exists(p):
            viol.append(('no-dump', '%s %s: step did not run' % (pkg, step))); return
        env = read_env(p)
        for k, v in expect.items():
            ncmp += 1
            if k not in env:
                viol.append(('declared-variable-missing:' + step, '%s %s: declared variable %s is not visible' % (pkg, step, k)))
            elif env[k] != v:
                viol.append(('value-altered:' + step, '%s %s: %s arrived as %r instead of %r' % (pkg, step, k, env[k][:60], v[:60])))
        extra = set(env) - set(expect) - BOB_VARS - BASH_OWN - set(allowed_host)
        ncmp += 1
        if extra:
            leaked = sorted(extra)
            kind = 'host-variable-leaks' if any(k in host or k in e1.BASE_ENV for k in leaked) else 'undeclared-variable-visible'
            viol.append(('%s:%s' % (kind, step), '%s %s: sees %s' % (pkg, step, leaked[:6])))
        for k in allowed_host:
            if k in host and k not in env:
                viol.append(('whitelisted-variable-missing:' + step, '%s %s: whitelisted host variable %s not visible' % (pkg, step, k)))
        return env

    default_wl = {'TERM', 'SHELL', 'USER', 'HOME', 'CAN_WL', 'VERIF_OUT', 'LANG', 'PATH'}     # PATH is handled as Bob variable
    if name == 'values':
        args = ['-DV%02d=%s' % (i, v) for i, v in enumerate(VALUES)]
        rc, out = e1.run_bob(D.d, ['dev', 'val'] + args, host)
        if rc != 0: viol.append(('build-fails', out[-300:]))
        else:
            exp = {'V%02d' % i: v for i, v in enumerate(VALUES)}
            for step in STEP_ORDER:
                check_env('val', step, exp, default_wl)
    elif name == 'placements':
        rc, out = e1.run_bob(D.d, ['dev', 'plc', '-DX=x-value', '-DY=y value $Y'], host)
        if rc != 0: viol.append(('build-fails', out[-300:]))
        else:
            for i, px in enumerate(PLACEMENTS):
                for j, py in enumerate(PLACEMENTS):
                    for step in STEP_ORDER:
                        exp = {}
                        if visible(px, step): exp['X'] = 'x-value'
                        if visible(py, step): exp['Y'] = 'y value $Y'
                        check_env('plc%d%d' % (i, j), step, exp, default_wl)
    elif name in ('wl-default', 'wl-e', 'wl-remove', 'wl-preserve'):
        extra = {'wl-default': [], 'wl-e': ['-e', 'CAN_E'], 'wl-remove': ['-c', 'cfgrm'], 'wl-preserve': ['-E']}[name]
        rc, out = e1.run_bob(D.d, ['dev', 'val'] + extra + ['-DV00=plain'], host)
        if rc != 0: viol.append(('build-fails', out[-300:]))
        else:
            allowed = set(default_wl)
            if name == 'wl-e': allowed.add('CAN_E')
            if name == 'wl-remove': allowed -= {'CAN_WL', 'HOME'}
            for step in STEP_ORDER:
                if name == 'wl-preserve':
                    env = read_env(os.path.join(base, 'out', 'val.%s.env' % step))
                    ncmp += 1
                    for k in ('CAN_NO', 'CAN_E', 'SECRET_TOKEN'):
                        if env.get(k) != host[k]: viol.append(('preserve-env-drops-variable', '-E: host variable %s not preserved in %s' % (k, step)))
                    if env.get('V00') != 'plain': viol.append(('value-altered:' + step, '-E: declared V00 wrong'))
                else:
                    check_env('val', step, {'V00': 'plain'}, allowed)
                    if name == 'wl-remove':
                        env = read_env(os.path.join(base, 'out', 'val.%s.env' % step))
                        for k in ('CAN_WL', 'HOME'):
                            if k in env: viol.append(('whitelist-remove-ignored', '%s still visible in %s after whitelistRemove' % (k, step)))
    elif name == 'tools':
        rc, out = e1.run_bob(D.d, ['dev', 'user'], host)
        if rc != 0: viol.append(('build-fails', out[-300:]))
        else:
            proj = D.d
            def ws(kind, pkg): return os.path.join(proj, 'dev', kind, pkg, '1', 'workspace')
            for step, tools in (('build', ['t1', 't2']), ('package', ['t1', 't2'])):     # tools carry forward like variables
                env = check_env('user', step, {}, default_wl)
                if env is None: continue
                path = env.get('PATH', '').split(':')
                ld = [x for x in env.get('LD_LIBRARY_PATH', '').split(':') if x]
                want_path = []
                want_ld = []
                if 't1' in tools: want_path.append(os.path.join(ws('dist', 't1'), 'bin')); want_ld += [os.path.join(ws('dist', 't1'), 'lib'), os.path.join(ws('dist', 't1'), 'lib64')]
                if 't2' in tools: want_path.append(os.path.join(ws('dist', 't2'), 'sbin'))
                ncmp += 2
                for p in want_path:
                    if p not in path: viol.append(('tool-not-on-path:' + step, 'user %s: %s missing from PATH %s' % (step, p, path[:4])))
                if sorted(ld) != sorted(want_ld): viol.append(('ld-library-path-wrong:' + step, 'user %s: LD_LIBRARY_PATH %s, expected %s' % (step, ld, want_ld)))
                unexpected = [p for p in path if p.startswith(proj) and p not in want_path]
                if unexpected: viol.append(('undeclared-tool-on-path:' + step, 'user %s: PATH holds %s' % (step, unexpected)))
            a = read_args(os.path.join(base, 'out', 'user.build.args'))
            want = [ws('src', 'user'), ws('dist', 'd2'), ws('dist', 'd1'), ws('dist', 'd3')]
            ncmp += 1
            if a != want: viol.append(('arguments-wrong:build', 'user build: arguments %s, expected %s' % (a, want)))
            a = read_args(os.path.join(base, 'out', 'user.package.args'))
            ncmp += 1
            if a != [ws('build', 'user')]: viol.append(('arguments-wrong:package', 'user package: arguments %s' % a))
    elif name == 'fingerprint':
        fpout = base + '/out/fp.fingerprint.env'
        rc, out = e1.run_bob(D.d, ['dev', 'fp', '-DSECRET=s3cr3t', '-DSHOWN=shown $x', '-DFPOUT=' + fpout], host)
        if rc != 0: viol.append(('build-fails', out[-300:]))
        elif not os.path.exists(fpout): viol.append(('no-dump', 'fingerprint script did not run'))
        else:
            env = read_env(fpout)
            ncmp += 1
            exp = {'SHOWN': 'shown $x', 'FPOUT': fpout}
            for k, v in exp.items():
                if env.get(k) != v: viol.append(('value-altered:fingerprint', 'fingerprint script: %s is %r' % (k, env.get(k))))
            extra = set(env) - set(exp) - BOB_VARS - BASH_OWN - default_wl
            if extra: viol.append(('undeclared-variable-visible:fingerprint', 'fingerprint script sees %s' % sorted(extra)))
            check_env('fp', 'build', {'SECRET': 's3cr3t', 'SHOWN': 'shown $x', 'FPOUT': fpout}, default_wl)
    elif name.startswith('sandbox-') and name != 'sandbox-image':
        mode = name[len('sandbox-'):]
        r = subprocess.run([os.path.join(runner.REPO, 'bin', 'bob-namespace-sandbox'), '-C'], stdout=subprocess.DEVNULL, stderr=subprocess.DEVNULL) \
            if os.path.exists(os.path.join(runner.REPO, 'bin', 'bob-namespace-sandbox')) else None
        rc, out = e1.run_bob(D.d, ['dev', '--%s-sandbox' % mode, 'sbroot', '-DVERIF_PROJ=' + D.d], host)
        if rc != 0:
            if 'namespace' in out.lower() or 'sandbox' in out.lower():
                shutil.rmtree(base, ignore_errors=True)
                return name, 0, [], 'skipped: ' + out[-120:].replace('\n', ' ')
            viol.append(('build-fails', out[-300:]))
        else:
            proj = D.d
            dist = os.path.join(proj, 'dev', 'dist', 'sbuser', '1', 'workspace')
            for step in ('checkout', 'build', 'package'):
                p = os.path.join(dist, '.visible-' + step) if step != 'checkout' else os.path.join(proj, 'dev', 'src', 'sbuser', '1', 'workspace', '.visible-checkout')
                if not os.path.exists(p):
                    viol.append(('no-dump', 'sandbox probe of %s missing' % step)); continue
                seen, cwd, args_ = {}, None, []
                for l in open(p).read().splitlines():
                    if l.startswith('CWD '): cwd = l[4:]
                    elif l.startswith('ARG '): args_.append(l[4:])
                    else:
                        d_, n_, w_, ls_ = l.rsplit(' ', 3); seen[d_] = (int(n_), w_, ls_)
                ncmp += 1
                deps = [a for a in args_ if not a.startswith('/invalid')]
                allowed = {cwd} | set(deps)
                # earlier steps of the own package may be visible too: the own checkout is recognised by its content
                foreign = sorted(d_ for d_ in seen if d_ not in allowed and not (step == 'package' and 'src.txt,' in seen[d_][2]))
                if foreign: viol.append(('sandbox-sees-undeclared-workspace:' + mode, '%s step sees %s' % (step, foreign)))
                writable = sorted(d_ for d_, (n_, w_, ls_) in seen.items() if w_ == 'yes' and d_ != cwd)
                if writable: viol.append(('sandbox-dependency-writable:' + mode, '%s step can write %s' % (step, writable)))
                for d_ in deps:
                    if d_ not in seen or seen[d_][0] == 0: viol.append(('sandbox-hides-declared-dependency:' + mode, '%s step cannot see %s' % (step, d_)))
                if cwd not in seen or seen[cwd][1] != 'yes': viol.append(('sandbox-own-workspace-readonly:' + mode, '%s step cannot write its own workspace' % step))
                if len(deps) != {'checkout': 1, 'build': 2, 'package': 1}[step]: viol.append(('sandbox-arguments-wrong:' + mode, '%s step got arguments %s' % (step, args_)))
    if name == 'sandbox-image':
        rc, out = e1.run_bob(D.d, ['dev', '--sandbox', 'imguser'], host)
        if rc != 0:
            shutil.rmtree(base, ignore_errors=True)
            return name, 0, [], 'skipped: sandbox image from host directories does not work here: ' + out[-160:].replace('\n', ' ')
        p = os.path.join(D.d, 'dev', 'dist', 'imguser', '1', 'workspace', '.imgcheck')
        lines = open(p).read().splitlines() if os.path.exists(p) else []
        ncmp += 1
        if not any(l.startswith('LIBOK ') for l in lines) or any(l.startswith('LIBMISSING') for l in lines):
            viol.append(('tool-library-not-found-in-sandbox', 'LD_LIBRARY_PATH inside the sandbox image does not lead to the library of the consumed tool: %s' % lines))
        if not any(l.startswith('TOOLOK') for l in lines):
            viol.append(('tool-not-on-path:sandbox-image', 'consumed tool not found on PATH inside the sandbox image: %s' % lines))
    shutil.rmtree(base, ignore_errors=True)
    seen = {}
    for k, w in viol: seen.setdefault(k, (k, w))
    return name, ncmp, list(seen.values()), None


def run(ctx):
    names = ['values', 'placements', 'wl-default', 'wl-e', 'wl-remove', 'wl-preserve', 'tools', 'fingerprint', 'sandbox-slim', 'sandbox-dev', 'sandbox-strict', 'sandbox-image']
    ncmp = 0
    skipped = []
    for name, n, viols, skip in runner.pmap_unordered(scenario, names):
        ncmp += n
        if skip: skipped.append('%s (%s)' % (name, skip))
        for key, what in viols:
            ctx.violation(key, 'scenario %s: %s' % (name, what), dict(scenario=name))
    ctx.log('%d scenarios, %d comparisons; skipped: %s' % (len(names), ncmp, skipped or 'none'))
    return ctx.finish(dict(
        states=len(names), transitions=ncmp, traces_validated_against_impl=len(names), evaluations=ncmp, distinct_nontrivial=ncmp,
        rule='one scenario = one real bob dev run whose generated step scripts dump env -0 and "$@"; evaluations = comparisons (declared variable value, absence of '
             'every other variable, tool paths, argument lists, visible/writable workspaces) - all distinct by (package, step, variable)',
        exhaustive=True, samples=[dict(value=VALUES[22], step='package'), dict(placement=['buildVarsWeak', 'packageVars'])],
        bounds=dict(values=len(VALUES), placements=len(PLACEMENTS) ** 2, whitelist_settings=4, sandbox_modes=['slim', 'dev', 'strict']), skipped=skipped),
        assumptions=['variable names follow the recipe schema and avoid names bash itself owns', 'values enter through -D (not substituted): the expectation is the literal',
                     'the sandbox image is assembled from read-only mounts of host directories (no root file system image is available offline)'])


def replay(ctx, body):
    print(scenario(body['replay']['scenario']))
    return 0
