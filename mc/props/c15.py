"""C15 - shared package store is safe under concurrent projects.

Engine E2: the real LocalShare code of 2-3 "processes" (installers, a user running the
builder's glue, garbage collectors) on one store directory; every interleaving of their
file-system calls and flock acquisitions within a preemption bound, from several initial
stores (missing, empty, one package, two packages of different age) and quota settings.

Oracles
  V  after every step: a directory visible at a package path holds pkg.json, audit.json.gz and
     workspace/ whose (uncached) hash equals the recorded one
  E  no actor raises (nothing here fails except through another actor or an empty store)
  O  among concurrent installers of one build-id exactly one reports installed=True
  U  a user that was handed a package can read it through its workspace link afterwards
     (unless a collector was *forced*)
  R  a workspace that links to a package is recorded in the package's users list
  A  at quiescence repo.json lists exactly the installed packages with their sizes
  Q  a collector removed exactly what the documented rule selects from the store as it was when
     it obtained the exclusive lock (unused only unless forced, oldest first, until quota met)
"""
import os, sys, json, shutil, hashlib
from .. import runner, e2

LEVEL = 'model_checking'
B1 = bytes.fromhex('11' * 20)
B2 = bytes.fromhex('22' * 20)
B3 = bytes.fromhex('33' * 20)
B0 = bytes.fromhex('00' * 20)


def mk_ws(proj, tag, size=1):
    """project layout <proj>/pkg/{workspace/,audit.json.gz}; returns workspace path"""
    ws = os.path.join(proj, 'pkg', 'workspace')
    os.makedirs(os.path.join(ws, 'sub'))
    with open(os.path.join(ws, 'data.txt'), 'w') as f: f.write('data of %s\n' % tag)
    with open(os.path.join(ws, 'sub', 'blob'), 'wb') as f: f.write(b'x' * 4096 * size)
    with open(os.path.join(proj, 'pkg', 'audit.json.gz'), 'wb') as f: f.write(b'audit-' + tag.encode())
    return ws


def plain_hash(d):
    """independent content hash of a tree (names, modes, bytes, link targets)"""
    h = hashlib.sha1()
    for dp, dn, fn in sorted(os.walk(d)):
        dn.sort()
        for n in sorted(fn + dn):
            p = os.path.join(dp, n)
            st = os.lstat(p)
            h.update(os.path.relpath(p, d).encode() + b'\0' + oct(st.st_mode).encode())
            if os.path.islink(p): h.update(os.readlink(p).encode())
            elif os.path.isfile(p): h.update(open(p, 'rb').read())
    return h.hexdigest()


class World:
    def __init__(self, sc, root):
        import bob.share as bs
        from bob.utils import hashDirectory
        self.bs, self.sc, self.root = bs, sc, root
        shutil.rmtree(root, ignore_errors=True)
        os.makedirs(root)
        self.store = os.path.join(root, 'store')
        self.problems = []
        self.actors = []
        self.execution = None
        self.validated = {}
        self.gc_snap = {}
        self.gc_removed = {}
        self.gc_dirty = set()
        self.forced = False
        self.installers = {}
        self.users = []
        e2.tempfile._name_sequence = e2.NameSeq()
        self.hashDirectory = hashDirectory
        init = sc['init']
        if init != 'nodir':
            os.makedirs(self.store)
        self.t = 1000000000
        # pre-installed packages: (build-id, tag, used?)
        for bid, tag, used, size in sc.get('pre', []):
            proj = os.path.join(root, 'pre-' + tag)
            ws = mk_ws(proj, tag, size)
            sh = bs.LocalShare({'path': self.store})
            h = hashDirectory(ws)
            path, inst = sh.installSharedPackage(ws, bid, h, True)
            assert inst
            if used:
                os.symlink(os.path.join(path, 'workspace'), ws)
            self.t += 1000
            os.utime(os.path.join(path, 'pkg.json'), (self.t, self.t))
        for spec in sc['actors']:
            kind = spec[0]
            name = spec[1]
            if kind == 'inst':
                _, name, bid, tag, quota, move = spec
                proj = os.path.join(root, 'proj-' + name)
                ws = mk_ws(proj, tag, 1)
                self.actors.append((name, self.installer(name, ws, bid, quota, move)))
            elif kind == 'user':
                _, name, bid = spec
                self.actors.append((name, self.user(name, bid)))
            elif kind == 'gc':
                _, name, quota, used, allunused = spec
                if used: self.forced = True
                self.actors.append((name, self.collector(name, quota, used, allunused)))

    def share(self, quota=None):
        spec = {'path': self.store}
        if quota is not None: spec['quota'] = quota
        return self.bs.LocalShare(spec)

    def installer(self, name, ws, bid, quota, move):
        sh = self.share(quota)
        h = self.hashDirectory(ws)
        self.installers.setdefault(bid, []).append(name)

        def f():
            me = e2.cur().me()
            me.private = getattr(me, 'private', []) + [os.path.dirname(os.path.dirname(ws))]
            return ('inst',) + tuple(sh.installSharedPackage(ws, bid, h, move))
        return f

    def user(self, name, bid):
        sh = self.share()
        proj = os.path.join(self.root, 'proj-' + name)
        ws = os.path.join(proj, 'pkg', 'workspace')
        os.makedirs(os.path.dirname(ws))
        osp = e2.OsProxy()
        self.users.append((name, ws))

        def f():
            path, h = sh.useSharedPackage(ws, bid)
            if path is None:
                return ('none',)
            # the glue of LocalBuilder._useSharedPackage: link the workspace, later steps read through it
            osp.symlink(os.path.join(path, 'workspace'), ws)
            try:
                with e2.open_proxy(os.path.join(ws, 'data.txt')) as fh:
                    data = fh.read()
            except OSError as e:
                return ('dangling', path, type(e).__name__)
            return ('used', path, data)
        return f

    def collector(self, name, quota, used, allunused):
        sh = self.share(quota)
        removed = self.gc_removed.setdefault(name, [])
        return lambda: ('gc', sh.gc(used, allunused, False, lambda p: removed.append(p)))

    # ---------------------------------------------------------------- observation helpers
    def packages(self):
        """visible package dirs: {hex build-id: path}"""
        res = {}
        if not os.path.isdir(self.store): return res
        for a in os.listdir(self.store):
            pa = os.path.join(self.store, a)
            if len(a) != 2 or not os.path.isdir(pa): continue
            for b in os.listdir(pa):
                pb = os.path.join(pa, b)
                if not os.path.isdir(pb): continue
                for c in os.listdir(pb):
                    if c.endswith('-3') and os.path.isdir(os.path.join(pb, c)):
                        res[a + b + c[:-2]] = os.path.join(pb, c)
        return res

    def is_used(self, path, meta):
        wsdir = os.path.join(path, 'workspace')
        for u in meta.get('users', []):
            try:
                if os.path.islink(u) and os.path.samefile(os.readlink(u), wsdir): return True
            except OSError:
                pass
        return False

    def after_step(self, x):
        for bid, path in self.packages().items():
            ino = os.stat(path).st_ino
            if self.validated.get(path) == ino: continue
            self.validated[path] = ino
            try:
                meta = json.load(open(os.path.join(path, 'pkg.json')))
                if not os.path.isfile(os.path.join(path, 'audit.json.gz')):
                    self.problems.append(('visible-package-incomplete', 'no audit.json.gz in visible package'))
                h = self.hashDirectory(os.path.join(path, 'workspace'))
                if h.hex() != meta.get('hash'):
                    self.problems.append(('visible-package-hash-mismatch', 'workspace hash differs from pkg.json'))
            except (OSError, ValueError) as e:
                self.problems.append(('visible-package-incomplete', 'visible package %s: %s: %s' % (bid[:6], type(e).__name__, str(e)[:60])))

    def on_lock(self, a, fname, mode):
        if mode == 'ex' and os.path.basename(fname) == 'repo.json' and a.name.startswith('G'):
            # snapshot of the store as the collector sees it now
            try:
                repo = json.load(open(fname))
            except ValueError:
                repo = None
            snap = {}
            for bid, path in self.packages().items():
                try:
                    meta = json.load(open(os.path.join(path, 'pkg.json')))
                    snap[bid] = dict(size=meta['size'], mtime=os.stat(os.path.join(path, 'pkg.json')).st_mtime_ns,
                                     used=self.is_used(path, meta), listed=(repo is not None and bid in repo.get('pkgs', {})))
                except (OSError, ValueError):
                    pass
            self.gc_snap[a.name] = (snap, repo)
            self.in_gc = a.name

    def on_unlock(self, a, fname):
        if os.path.basename(fname) == 'repo.json' and a.name.startswith('G'):
            self.in_gc = None

    def cleanup(self):
        shutil.rmtree(self.root, ignore_errors=True)


_installed = False


def install():
    global _installed
    if _installed: return
    import bob.share as bs
    bs.os = e2.OsProxy()
    bs.open = e2.open_proxy
    bs.lockFile = e2.lock_file
    bs.unlockFile = e2.unlock_file
    bs.tempfile = e2.TempfileProxy()
    for w in (bs.warnRepoSize, bs.warnGcDidNotHelp, bs.warnEscapedHardLink):
        w.show = lambda *a, **k: None
        w.warn = lambda *a, **k: None
    _installed = True


def expected_gc(snap, quota, used, allunused, newpkg=None):
    """documented rule: unused packages, oldest usage first, until the quota is met;
    --all-unused: all unused regardless of quota; --used: used ones are considered too."""
    listed = {b: p for b, p in snap.items() if p['listed']}
    size = sum(p['size'] for p in listed.values())
    order = sorted(listed.items(), key=lambda kv: (kv[1]['used'] is False and 0 or 1, kv[1]['mtime']))
    # unused first (oldest first), then (if forced) used ones oldest first
    removed = []
    for b, p in order:
        if p['used'] and not used: continue
        if p['used']:
            if quota is None or size <= quota: break
        else:
            if not allunused and (quota is None or size <= quota): break
        removed.append(b); size -= p['size']
    return removed, size


def run_scenario(job):
    sc, bound, limit = job
    install()
    root = os.path.join(runner.scratch(), 'c15')
    stats = dict(execs=0, steps=0, viol=[], outcomes=set(), capped=False, sample=None, qchecked=0)

    def make():
        w = World(sc, root)
        return w

    def check(x, w):
        stats['execs'] += 1; stats['steps'] += len(x.steps)
        probs = list(w.problems) + [('scheduler:' + p.split(':')[0], p) for p in x.problems]
        res = {}
        for a in x.actors:
            if a.exc is not None:
                kind = {'I': 'install', 'U': 'use', 'G': 'gc'}[a.name[0]]
                probs.append(('%s-raises:%s' % (kind, type(a.exc).__name__), '%s raised %s: %s' % (a.name, type(a.exc).__name__, str(a.exc)[:100])))
                res[a.name] = 'exc'
            else:
                r = a.result
                res[a.name] = {'inst': lambda: 'installed' if r[2] else 'lost', 'none': lambda: 'none', 'used': lambda: 'used',
                               'gc': lambda: 'gc', 'dangling': lambda: 'dangling'}[r[0]]() if r else 'none'
                if r and r[0] == 'dangling' and not w.forced:
                    probs.append(('used-package-collected-before-link', 'user %s was handed %s by useSharedPackage (and is recorded in its users list) but the package was collected before the workspace link existed: reading through the link gives %s' % (a.name, os.path.basename(r[1]), r[2])))
        # O: exactly one installer per build-id
        pre = {b for b, _, _, _ in sc.get('pre', [])}
        for bid, names in w.installers.items():
            ok = [n for n in names if res.get(n) in ('installed', 'lost')]
            inst = [n for n in ok if res[n] == 'installed']
            if len(ok) == len(names) and not any(a.name.startswith('G') for a in x.actors):
                want = 0 if bid in pre else 1
                if len(inst) != want:
                    probs.append(('install-count', '%d installers report installed=True for one build-id (expected %d)' % (len(inst), want)))
        pk = w.packages()
        # U: users can read through their link
        for name, ws in w.users:
            a = [a for a in x.actors if a.name == name][0]
            if a.exc is None and a.result and a.result[0] == 'used' and not w.forced:
                try:
                    open(os.path.join(ws, 'data.txt')).read()
                except OSError as e:
                    probs.append(('used-package-collected', 'user %s was handed %s but cannot read it afterwards: %s' % (name, os.path.basename(a.result[1]), type(e).__name__)))
        # R: every workspace that was handed a package and links to it is recorded as its user
        for name, ws in w.users:
            a = [a for a in x.actors if a.name == name][0]
            if a.exc is None and a.result and a.result[0] == 'used' and os.path.isdir(a.result[1]):
                try:
                    meta = json.load(open(os.path.join(a.result[1], 'pkg.json')))
                    if ws not in meta.get('users', []):
                        probs.append(('user-not-recorded', 'workspace of %s links to the package but is missing from its users list %s (a later gc would collect a used package)' % (name, [os.path.basename(os.path.dirname(os.path.dirname(u))) for u in meta.get('users', [])])))
                except (OSError, ValueError) as e:
                    probs.append(('pkg-json-corrupt', 'pkg.json unreadable at quiescence: %s' % type(e).__name__))
        # A: accounting
        if not any(a.exc for a in x.actors):
            rj = os.path.join(w.store, 'repo.json')
            listed = {}
            if os.path.exists(rj):
                try:
                    listed = json.load(open(rj)).get('pkgs', {})
                except ValueError as e:
                    probs.append(('repo-json-corrupt', 'repo.json does not parse at quiescence'))
            sizes = {}
            for b, p in pk.items():
                try: sizes[b] = json.load(open(os.path.join(p, 'pkg.json')))['size']
                except (OSError, ValueError): sizes[b] = None
            if listed != sizes:
                probs.append(('accounting-mismatch', 'repo.json lists %s, installed %s' % (sorted((k[:4], v) for k, v in listed.items()), sorted((k[:4], v) for k, v in sizes.items()))))
        # Q: collectors followed the documented rule (only when nothing else ran inside their critical section)
        for spec in sc['actors']:
            if spec[0] != 'gc': continue
            _, name, quota, used, allunused = spec
            a = [a for a in x.actors if a.name == name][0]
            if a.exc is not None or name not in w.gc_snap: continue
            snap, repo = w.gc_snap[name]
            # steps of other actors between G's lock and unlock make the snapshot ambiguous
            names = [s[0] for s in x.steps]
            li = max(i for i, s in enumerate(x.steps) if s[0] == name and s[1] == 'flock' and 'ex repo.json' in s[2])
            ui = min([i for i, s in enumerate(x.steps) if i > li and s[0] == name and s[1] == 'funlock' and 'repo.json' in s[2]] or [len(x.steps)])
            if any(s[0] != name and s[1] in ('os.symlink', 'os.rename') for s in x.steps[li:ui + 1]): continue
            exp, expsize = expected_gc(snap, quota, used, allunused)
            got = sorted(os.path.basename(p)[:-2] for p in w.gc_removed[name])
            got = sorted(b for b in snap if any(p.endswith(b[4:] + '-3') for p in w.gc_removed[name]))
            stats['qchecked'] += 1
            if sorted(exp) != got:
                probs.append(('gc-wrong-selection', 'collector %s (quota=%s used=%s all-unused=%s) removed %s, documented rule selects %s from %s' % (
                    name, quota, used, allunused, [g[:4] for g in got], [e[:4] for e in exp],
                    {b[:4]: (p['size'], 'used' if p['used'] else 'unused', p['mtime'] // 10**9) for b, p in snap.items()})))
            elif a.result[1] is not None and a.result[1] != expsize:
                probs.append(('gc-wrong-size', 'collector returned size %s, expected %s' % (a.result[1], expsize)))
        stats['outcomes'].add(tuple(sorted(res.items())) + (tuple(sorted(b[:4] for b in pk)),))
        if stats['sample'] is None and len(x.steps) > 10:
            stats['sample'] = [' '.join(s) for s in x.steps[:60]]
        for key, what in probs:
            stats['viol'].append((key, what, dict(scenario=sc, choices=list(x.choices), steps=[' '.join(s) for s in x.steps])))

    e2.explore(make, bound, check, limit=limit, stats=stats)
    stats['outcomes'] = sorted(stats['outcomes'])
    stats['viol'] = stats['viol'][:40]
    return sc['name'], stats


def I(name, bid, tag='P', quota=None, move=True): return ('inst', name, bid, tag, quota, move)
def U(name, bid): return ('user', name, bid)
def G(name, quota=None, used=False, allunused=False): return ('gc', name, quota, used, allunused)


PRE1 = [(B1, 'P', False, 1)]
PRE1U = [(B1, 'P', True, 1)]
PRE2 = [(B0, 'old', False, 2), (B2, 'new', False, 1)]
PRE2U = [(B0, 'old', True, 2), (B2, 'new', False, 1)]
PRE3 = [(B0, 'old', False, 1), (B2, 'mid', False, 1), (B3, 'new', False, 1)]


def scenarios(quick):
    S = []
    def add(name, init, actors, pre=(), bound=2):
        S.append(dict(name=name, init=init, actors=actors, pre=list(pre), bound=bound))
    # single actors from every initial store (sequential sanity of every operation)
    for init in ('nodir', 'emptydir'):
        add('gc-auto-on-' + init, init, [G('G', 4096)])
        add('gc-all-on-' + init, init, [G('G', None, False, True)])
        add('use-on-' + init, init, [U('U', B1)])
        add('inst-on-' + init, init, [I('I1', B1)])
        add('2inst-same-' + init, init, [I('I1', B1), I('I2', B1)])
        add('2inst-diff-' + init, init, [I('I1', B1), I('I3', B2, 'Q')])
        add('inst-gc-' + init, init, [I('I1', B1), G('G', None, False, True)])
        add('inst-use-' + init, init, [I('I1', B1), U('U', B1)])
    add('2inst-copy', 'emptydir', [I('I1', B1, move=False), I('I2', B1, move=False)])
    add('use-use', 'pre', [U('U1', B1), U('U2', B1)], PRE1)
    add('use-gcall', 'pre', [U('U', B1), G('G', None, False, True)], PRE1)
    add('use-gcauto', 'pre', [U('U', B1), G('G', 1)], PRE1)
    add('used-gcall', 'pre', [G('G', None, False, True)], PRE1U)
    add('used-gcforced', 'pre', [G('G', 1, True, False)], PRE1U)
    add('gc-auto-2', 'pre', [G('G', 6000)], PRE2)
    add('gc-auto-2used', 'pre', [G('G', 1)], PRE2U)
    add('gc-auto-3', 'pre', [G('G', 9000)], PRE3)
    add('gc-all-3', 'pre', [G('G', 100000, False, True)], PRE3)
    add('inst-autoclean', 'pre', [I('I1', B1, quota=9000)], PRE2)
    add('inst-autoclean-gc', 'pre', [I('I1', B1, quota=9000), G('G', 9000)], PRE2)
    add('inst-inst-pre', 'pre', [I('I1', B1), I('I2', B1)], PRE1)
    add('use-inst-other', 'pre', [U('U', B1), I('I3', B2, 'Q')], PRE1)
    add('gc-gc', 'pre', [G('G1', 1), G('G2', None, False, True)], PRE2)
    # three actors
    add('inst-inst-use', 'emptydir', [I('I1', B1), I('I2', B1), U('U', B1)], bound=1)
    add('inst-use-gc', 'emptydir', [I('I1', B1), U('U', B1), G('G', None, False, True)], bound=1)
    add('use-use-gc', 'pre', [U('U1', B1), U('U2', B1), G('G', None, False, True)], PRE1, bound=1)
    add('inst3-diff', 'nodir', [I('I1', B1), I('I3', B2, 'Q'), I('I4', B3, 'R')], bound=1)
    if not quick:
        for s in S:
            s['bound'] = 3 if len(s['actors']) <= 2 else 2
    return S


def run(ctx):
    quick = ctx.tier == 'quick'
    S = scenarios(quick)
    only = ctx.opts.get('only')
    if only: S = [s for s in S if s['name'] in only.split(',')]
    jobs = [(s, s['bound'], 150000) for s in S]
    execs = steps = qn = 0
    outcomes = set(); capped = False; samples = []
    for name, st in runner.pmap_unordered(run_scenario, jobs):
        execs += st['execs']; steps += st['steps']; capped |= st['capped']; qn += st['qchecked']
        for o in st['outcomes']: outcomes.add((name, o))
        if st['sample'] and len(samples) < 2 and name in ('use-gcall', '2inst-diff-emptydir'):
            samples.append(dict(scenario=name, schedule=st['sample']))
        for key, what, rep in st['viol']:
            ctx.violation(key, 'scenario=%s: %s' % (name, what), rep)
    ctx.log('%d scenarios, %d executions, %d steps, %d distinct (scenario,outcome) pairs, gc rule checked %d times, capped=%s' % (
        len(S), execs, steps, len(outcomes), qn, capped))
    if not samples: samples = [dict(scenario=S[0]['name'])]
    return ctx.finish(dict(
        states=steps, transitions=steps, traces_validated_against_impl=execs, evaluations=execs, distinct_nontrivial=execs,
        rule='one evaluation = one complete execution of the real LocalShare install/use/gc code of 1-3 actors under one schedule; '
             'all schedules within the preemption bound are enumerated (distinct choice sequences); invariant V is evaluated after every step',
        exhaustive=not capped, samples=samples,
        bounds=dict(scenarios=[s['name'] for s in S], preemption_bound={s['name']: s['bound'] for s in S}),
        executions=execs, gc_rule_checks=qn, distinct_outcomes=len(outcomes)),
        assumptions=['flock is modelled by a lock table keyed by inode with shared/exclusive modes (per actor); a blocked actor is disabled',
                     'operations on an actor\'s own temporary directory and project directory are private (no scheduling point)',
                     'no crashes in this property: quantifier is over schedules and histories only'])


def replay(ctx, body):
    r = body['replay']
    install()
    root = os.path.join(runner.scratch(), 'c15')
    w = World(r['scenario'], root)
    x = e2.Execution(w.actors, r['choices'], None, w.after_step)
    x.on_lock, x.on_unlock = w.on_lock, w.on_unlock
    x.run()
    for s in x.steps: print('  step:', ' '.join(s))
    for a in x.actors: print(a.name, 'result', a.result, 'exc', repr(a.exc))
    print('problems', w.problems)
    return 0
