"""C12 - checkouts converge to the recipe and never destroy user work.

Engine E1 on a git universe: two local upstream repositories (branches master/dev, a tag, commits
only reachable from dev), a recipe `p` whose checkoutSCM is rendered from a specification vector
(url, branch/tag/commit, target directory, nested second SCM).  Histories interleave
  recipe actions    set ref to dev / tag / commit / back to master, other directory, other repository, nested SCM on/off
  upstream actions  new commit on master, force-rewrite of master, tag moved
  user actions      modify tracked file, add untracked file, local commit, new local branch with a commit,
                    commit on a detached HEAD - every one leaves a unique marker string
  bob actions       `bob dev p` after every action (variants: --clean-checkout; finally `bob clean -s` / `bob clean --attic`)
Invariants after every Bob invocation: (P) every marker created so far is still present under the project -
as file content in a workspace or attic tree, or in a commit reachable from a ref / HEAD / stash of a repository
in a workspace or attic; (C) if the user never touched the workspace, the source tree (without .git) equals a
fresh checkout of the final specification against the final upstream; Bob exits 0 or with a clean error
message, never with a traceback.
"""
import os, sys, shutil, itertools, subprocess, glob
from .. import runner, e1
from ..w7 import GITENV

LEVEL = 'model_checking'


def git(cwd, *args, check=True):
    r = subprocess.run(['git'] + list(args), cwd=cwd, env=GITENV, stdout=subprocess.PIPE, stderr=subprocess.STDOUT, text=True)
    if check: assert r.returncode == 0, (cwd, args, r.stdout)
    return r.returncode, r.stdout


def make_upstreams(base):
    """repo1: master c0-c1 (tag v1 at c0), dev = c1 + d1; repo2: master r0"""
    info = {}
    for name in ('repo1', 'repo2'):
        w = os.path.join(base, name + '-work')
        os.makedirs(w)
        git(w, 'init', '-q', '-b', 'master')
        with open(os.path.join(w, 'f.txt'), 'w') as f: f.write('%s c0\n' % name)
        git(w, 'add', '.'); git(w, 'commit', '-q', '-m', 'c0')
        if name == 'repo1':
            git(w, 'tag', 'v1')
            info['c0'] = git(w, 'rev-parse', 'HEAD')[1].strip()
            with open(os.path.join(w, 'f.txt'), 'a') as f: f.write('c1\n')
            git(w, 'commit', '-q', '-am', 'c1')
            info['c1'] = git(w, 'rev-parse', 'HEAD')[1].strip()
            git(w, 'checkout', '-q', '-b', 'dev')
            with open(os.path.join(w, 'dev.txt'), 'w') as f: f.write('only on dev\n')
            git(w, 'add', '.'); git(w, 'commit', '-q', '-m', 'd1')
            git(w, 'checkout', '-q', 'master')
        git(base, 'clone', '-q', '--bare', w, os.path.join(base, name + '.git'))
    # two releases of a tarball with the same file name (url SCM without digest): lib.h changes, a.txt is dropped, b.txt is new
    import tarfile, io
    for ver, members in (('1.0', {'lib.h': 'upstream lib v1\n', 'a.txt': 'only in 1.0\n'}), ('2.0', {'lib.h': 'upstream lib v2\n', 'b.txt': 'only in 2.0\n'})):
        os.makedirs(os.path.join(base, 'tars', ver))
        with tarfile.open(os.path.join(base, 'tars', ver, 'data.tar'), 'w') as tar:
            for n, c in sorted(members.items()):
                ti = tarfile.TarInfo(n); ti.size = len(c); ti.mtime = 1500000000
                tar.addfile(ti, io.BytesIO(c.encode()))
        t = 1600000000 + (0 if ver == '2.0' else 1000)      # the newer release is the older file
        os.utime(os.path.join(base, 'tars', ver, 'data.tar'), (t, t))
    return info


def upstream(base, action, k):
    w = os.path.join(base, 'repo1-work')
    bare = os.path.join(base, 'repo1.git')
    if action == 'u_commit':
        with open(os.path.join(w, 'f.txt'), 'a') as f: f.write('upstream commit %d\n' % k)
        git(w, 'commit', '-q', '-am', 'u%d' % k)
        git(w, 'push', '-q', bare, 'master')
    elif action == 'u_rewrite':
        with open(os.path.join(w, 'f.txt'), 'a') as f: f.write('rewritten %d\n' % k)
        git(w, 'commit', '-q', '--amend', '-am', 'rewritten%d' % k)
        git(w, 'push', '-q', '-f', bare, 'master')
    elif action == 'u_tagmove':
        git(w, 'tag', '-f', 'v1', 'master')
        git(w, 'push', '-q', '-f', bare, 'v1')


SPEC0 = dict(url='repo1', ref='branch:master', dir='.', nested=0, rebase=0, dep=1, urlnest=0, urlver=0, sib=0)
SPEC_BC = dict(SPEC0, ref='bc0')                  # branch master + commit c0 (gitCommitOnBranch)
SPEC_NESTED = dict(SPEC0, nested=1)
# siblings: two SCMs side by side whose directory names share a prefix (sub, sub-extra)
INITS = {'default': SPEC0, 'branch+commit': SPEC_BC, 'nested': SPEC_NESTED, 'urlnest': dict(SPEC0, urlnest=1),
         'siblings': dict(SPEC0, dir='sub', nested=1, sib=1)}


def files(spec, base, info):
    ref = spec['ref']
    lines = ['    - scm: git', '      url: "file://%s.git"' % os.path.join(base, spec['url'])]
    if ref.startswith('branch:'):
        lines.append('      branch: %s' % ref[7:])
        if spec['rebase']: lines.append('      rebase: True')
    elif ref == 'tag': lines.append('      tag: v1')
    elif ref == 'commit': lines.append('      commit: %s' % info['c0'])
    elif ref in ('bc0', 'bc1'):
        lines.append('      branch: master')
        lines.append('      commit: %s' % info['c0' if ref == 'bc0' else 'c1'])
    if spec['dir'] != '.': lines.append('      dir: %s' % spec['dir'])
    if spec['nested']:
        lines += ['    - scm: git', '      url: "file://%s.git"' % os.path.join(base, 'repo2'), '      dir: %s' % ('sub-extra' if spec.get('sib') else 'nested')]
    if spec['urlnest']:
        lines += ['    - scm: url', '      url: "file://%s/tars/%s/data.tar"' % (base, '2.0' if spec['urlver'] else '1.0'), '      dir: vendor']
    f = {'config.yaml': 'bobMinimumVersion: "0.25"\n',
         'recipes/p.yaml': 'checkoutSCM:\n' + '\n'.join(lines) + '\nbuildScript: "true"\npackageScript: "true"\n',
         'recipes/top.yaml': 'root: True\n' + ('depends: [p]\n' if spec['dep'] else '') + 'buildScript: "true"\npackageScript: "true"\n'}
    return f


SPEC_ACTIONS = {'s_dev': ('ref', 'branch:dev'), 's_tag': ('ref', 'tag'), 's_commit': ('ref', 'commit'), 's_master': ('ref', 'branch:master'),
                's_dir': ('dir', None), 's_url': ('url', None), 's_nested': ('nested', None), 's_rebase': ('rebase', None),
                's_bc0': ('ref', 'bc0'), 's_bc1': ('ref', 'bc1'), 's_drop': ('dep', None), 's_urlnest': ('urlnest', None), 's_urlver': ('urlver', None)}
UP_ACTIONS = ['u_commit', 'u_rewrite']      # moving a tag is excluded: "Tags never change" is a documented assumption of Bob
USER_ACTIONS = ['w_mod', 'w_untracked', 'w_commit', 'w_branch', 'w_detach', 'w_side', 'w_commit_side', 'w_vendor']
MISC_ACTIONS = ['rerun']        # just another bob dev


def apply_spec(spec, a):
    k, val = SPEC_ACTIONS[a]
    s = dict(spec)
    if k == 'ref': s['ref'] = val
    elif k == 'dir': s['dir'] = 'sub' if s['dir'] == '.' else '.'
    elif k == 'url': s['url'] = 'repo2' if s['url'] == 'repo1' else 'repo1'
    elif k == 'nested': s['nested'] ^= 1
    elif k == 'rebase': s['rebase'] ^= 1
    elif k == 'dep': s['dep'] ^= 1
    elif k == 'urlnest': s['urlnest'] ^= 1
    elif k == 'urlver':
        if not s['urlnest']: return None
        s['urlver'] ^= 1
    if s['url'] == 'repo2' and s['ref'] != 'branch:master': return None        # repo2 only has master
    return s


def src_tree(ws):
    """canonical content of a source workspace without git metadata"""
    return e1.tree_canon(ws, ignore=('.git',))


def find_repos(proj):
    res = []
    for dp, dn, fn in os.walk(os.path.join(proj, 'dev')):
        if '.git' in dn:
            res.append(dp); dn.remove('.git')
    return res


def marker_present(proj, marker):
    m = marker.encode()
    for dp, dn, fn in os.walk(os.path.join(proj, 'dev')):
        if '.git' in dn: dn.remove('.git')
        for n in fn:
            try:
                if m in open(os.path.join(dp, n), 'rb').read(): return 'file'
            except OSError:
                pass
    for repo in find_repos(proj):
        rc, out = git(repo, 'for-each-ref', '--format=%(objectname)', check=False)
        tips = set(out.split())
        rc, head = git(repo, 'rev-parse', '-q', '--verify', 'HEAD', check=False)
        if rc == 0: tips.add(head.strip())
        for t in tips:
            rc, out = git(repo, 'grep', '-q', marker, t, check=False)
            if rc == 0: return 'commit'
    return None


def user_action(ws, a, k):
    """returns the marker"""
    marker = 'MARK-%s-%d' % (a, k)
    if not os.path.isdir(os.path.join(ws, '.git')): return None
    if a == 'w_mod':
        with open(os.path.join(ws, 'f.txt'), 'a') as f: f.write(marker + '\n')
    elif a == 'w_untracked':
        with open(os.path.join(ws, 'untracked-%d.txt' % k), 'w') as f: f.write(marker + '\n')
    elif a == 'w_commit':
        with open(os.path.join(ws, 'c%d.txt' % k), 'w') as f: f.write(marker + '\n')
        git(ws, 'add', '.'); git(ws, 'commit', '-q', '-m', marker)
    elif a == 'w_branch':
        git(ws, 'checkout', '-q', '-b', 'local%d' % k)
        with open(os.path.join(ws, 'b%d.txt' % k), 'w') as f: f.write(marker + '\n')
        git(ws, 'add', '.'); git(ws, 'commit', '-q', '-m', marker)
    elif a == 'w_vendor':
        # an untracked directory of the user where a later SCM of the recipe wants to check out
        os.makedirs(os.path.join(ws, 'vendor'), exist_ok=True)
        with open(os.path.join(ws, 'vendor', 'lib.h'), 'w') as f: f.write(marker + '\n')
    elif a in ('w_side', 'w_commit_side') and git(ws, 'symbolic-ref', '-q', 'HEAD', check=False)[0] != 0:
        return None         # leaving a detached HEAD abandons its commits by the user's own hand: not a history that tests Bob
    elif a == 'w_commit_side':
        # unpushed commit on the current branch, then hop to another local branch before Bob runs again
        marker = user_action(ws, 'w_commit', k)
        git(ws, 'checkout', '-q', '-b', 'side%d' % k, 'origin/master')
        return marker
    elif a == 'w_side':
        # move to another local branch that sits on a commit other refs hold too (no new work, hence no marker of its own)
        rc, _ = git(ws, 'checkout', '-q', '-b', 'side%d' % k, 'origin/master', check=False)
        return '' if rc == 0 else None        # git itself refuses when local modifications are in the way
    elif a == 'w_detach':
        git(ws, 'checkout', '-q', '--detach', 'HEAD')
        with open(os.path.join(ws, 'd%d.txt' % k), 'w') as f: f.write(marker + '\n')
        git(ws, 'add', '.'); git(ws, 'commit', '-q', '-m', marker)
    return marker


def fresh_checkout(base, spec, info, tag):
    d = os.path.join(base, 'fresh-' + tag, 'proj')
    shutil.rmtree(os.path.dirname(d), ignore_errors=True)
    D = e1.Dir(d); D.reset(); D.sync(files(spec, base, info))
    rc, out = e1.run_bob(d, ['dev', 'top'], {})
    ws = os.path.join(d, 'dev', 'src', 'p', '1', 'workspace')
    res = src_tree(ws) if rc == 0 else ('FAILED', out[-200:])
    shutil.rmtree(os.path.dirname(d), ignore_errors=True)
    return res


_template = {}


def prepare(base, init='default'):
    """pristine upstream repositories + base project with its first checkout done, restored for every history"""
    tpl = base + '-template-' + init
    if _template.get(init) != tpl or not os.path.isdir(tpl):
        shutil.rmtree(tpl, ignore_errors=True); shutil.rmtree(base, ignore_errors=True)
        os.makedirs(base)
        info = make_upstreams(base)
        D = e1.Dir(base + '/proj'); D.reset(); D.sync(files(dict(INITS[init]), base, info))
        rc, out = e1.run_bob(D.d, ['dev', 'top'], {})
        assert rc == 0, out[-300:]
        e1.snapshot(base, tpl)
        _template[init] = tpl; _template['info-' + init] = info
    e1.restore(tpl, base)
    return _template['info-' + init]


def fresh_job(job):
    specitems, ups = job
    base = os.path.join(runner.scratch(), 'c12f-%d' % os.getpid())
    info = prepare(base)
    for i, a in enumerate(ups): upstream(base, a, i + 1)
    return job, fresh_checkout(base, dict(specitems), info, 'x')


def history_worker(job):
    hist, bobargs, final, fresh, init = job
    base = os.path.join(runner.scratch(), 'c12-%d' % os.getpid())
    info = prepare(base, init)
    spec = dict(INITS[init])
    D = e1.Dir(base + '/proj')
    D.files = files(spec, base, info)
    D.clock += 10**12
    ups = []
    rewritten = False
    stuck = [False]
    nrun = 0
    viol = []
    markers = []
    touched = False
    upver = 0

    def bob(args):
        nonlocal nrun
        rc, out = e1.run_bob(D.d, args, {})
        nrun += 1
        return rc, out

    def ws_of(spec):
        w = os.path.join(D.d, 'dev', 'src', 'p', '1', 'workspace')
        return w if spec['dir'] == '.' else os.path.join(w, spec['dir'])

    def check(rc, out, where):
        if 'Traceback (most recent call last)' in out:
            viol.append(('bob-traceback', '%s: %s' % (where, out[-300:])))
        for mk, how in markers:
            if marker_present(D.d, mk) is None:
                viol.append(('user-work-lost:' + mk.split('-')[1], '%s: marker %s (%s) is nowhere under the project any more' % (where, mk, how)))
        if rc == 0 and not touched and spec['dep'] and not (spec['ref'] == 'bc1' and rewritten):     # a rewritten upstream no longer has commit c1
            want = fresh[(tuple(sorted(spec.items())), tuple(ups))]
            got = src_tree(os.path.join(D.d, 'dev', 'src', 'p', '1', 'workspace'))
            if got != want:
                viol.append(('checkout-differs-from-fresh', '%s: untouched source workspace differs from a fresh checkout of %s: %s vs %s' % (
                    where, spec, [x[:2] for x in got][:6], [x[:2] for x in want][:6] if isinstance(want, tuple) else want)))
        elif rc != 0 and not touched and (stuck[0] or (rewritten and not spec['rebase'])):
            stuck[0] = True     # documented: without `rebase: True` updates fail when the upstream branch was rebased; the user has to sort it out
        elif rc != 0 and not touched:
            viol.append(('bob-fails-on-untouched-workspace', '%s: bob failed although the user never touched the workspace: %s' % (where, out[-250:])))

    k = 0
    for i, a in enumerate(hist):
        k += 1
        h = list(hist[:i + 1])
        if a in SPEC_ACTIONS:
            s2 = apply_spec(spec, a)
            if s2 is None: continue
            spec = s2
            D.sync(files(spec, base, info))
        elif a in UP_ACTIONS:
            ups.append(a); upstream(base, a, len(ups)); upver += 1
            if a == 'u_rewrite': rewritten = True
        elif a in USER_ACTIONS:
            mk = user_action(ws_of(spec), a, k)
            if mk is None: continue
            if mk: markers.append((mk, a))
            touched = True
        rc, out = bob(['dev', 'top'] + list(bobargs))
        check(rc, out, 'history %s, bob dev %s' % (h, ' '.join(bobargs)))
        if viol: break
    if not viol and final:
        rc, out = bob(final)
        where = 'history %s then bob %s' % (list(hist), ' '.join(final))
        if 'Traceback (most recent call last)' in out: viol.append(('bob-traceback', '%s: %s' % (where, out[-300:])))
        for mk, how in markers:
            if marker_present(D.d, mk) is None:
                viol.append(('user-work-lost-by-clean:' + mk.split('-')[1], '%s: marker %s is nowhere under the project any more' % (where, mk)))
    seen = {}
    for kk, w in viol: seen.setdefault(kk, (kk, w))
    return job[:3] + (job[4],), nrun, list(seen.values())


def run(ctx):
    quick = ctx.tier == 'quick'
    A = list(SPEC_ACTIONS) + UP_ACTIONS + USER_ACTIONS
    S, Up, W = list(SPEC_ACTIONS), UP_ACTIONS, USER_ACTIONS
    if quick:
        S = ['s_dev', 's_commit', 's_dir', 's_url']
        W = ['w_mod', 'w_commit', 'w_detach']
    hists = []
    for a in A: hists.append(((a,), (), None))
    for a, b in itertools.product(S + Up + W, repeat=2):
        if a in Up and b in Up and a == b and quick: continue
        if quick and a in S and b in S and not (a == b or 's_dir' in (a, b)): continue
        if quick and a in W and b in W: continue
        if quick and ((a in S and b in Up) or (a in Up and b in S)) and 's_dev' not in (a, b): continue
        hists.append(((a, b), (), None))
    hists.append((('s_rebase', 'u_rewrite'), (), None))
    hists.append((('s_tag', 's_master'), (), None)); hists.append((('s_commit', 's_master'), (), None)); hists.append((('s_master', 's_tag'), (), None))
    # user work, then a recipe/upstream change, then clean variants
    for w in W:
        for s_ in ('s_dev', 's_url') + (() if quick else ('s_dir', 's_commit', 'u_rewrite')):
            hists.append(((w, s_), (), ['clean', '-s']))
            if not quick or s_ == 's_url': hists.append(((w, s_), (), ['clean', '--attic']))
            if not quick or s_ == 's_dev': hists.append(((w, s_), ('--clean-checkout',), None))
    if not quick:
        # depth 3: user work, then two recipe/upstream changes (or further user work) over the sharper part of the alphabet
        sh = ['s_dev', 's_commit', 's_dir', 's_url', 's_nested', 'u_commit', 'u_rewrite']
        for t in itertools.product(USER_ACTIONS[:5], sh, sh + ['w_mod', 'w_commit']):
            hists.append((t, (), None))
        for a, b in itertools.product(A, repeat=2):
            hists.append(((a, b), ('--clean-checkout',), ['clean', '-s']))
    hists = [(h, ba, f, 'default') for h, ba, f in hists]
    # branch + commit on a branch (gitCommitOnBranch): user commit on the branch, user moves elsewhere, the recipe's commit changes
    for w in ('w_commit', 'w_mod', 'w_untracked'):
        hists.append(((w, 's_bc1'), (), None, 'branch+commit'))
        hists.append(((w, 'w_side', 's_bc1'), (), None, 'branch+commit'))
    hists.append((('w_commit_side', 's_bc1'), (), None, 'branch+commit'))
    hists.append((('w_commit_side', 's_bc1', 's_bc0'), (), None, 'branch+commit'))
    hists.append((('w_commit_side', 's_dev'), (), None, 'default'))
    hists.append((('w_commit_side', 'u_commit'), (), None, 'default'))
    hists.append((('s_bc1',), (), None, 'branch+commit')); hists.append((('s_bc1', 's_bc0'), (), None, 'branch+commit'))
    # a url SCM without digest nested into the git workspace: release changes (same file name), appears where the user has files
    hists += [(('s_urlver',), (), None, 'urlnest'), (('s_urlver', 's_urlver'), (), None, 'urlnest'), (('s_urlnest',), (), None, 'urlnest'),
              (('w_mod', 's_urlver'), (), None, 'urlnest'), (('s_urlver', 's_dev'), (), None, 'urlnest'),
              (('w_vendor', 's_urlnest', 'rerun'), (), None, 'default'), (('w_vendor', 's_urlnest', 'rerun', 'rerun'), (), ['clean', '-s'], 'default'),
              (('s_urlnest', 's_urlver'), (), None, 'default')]
    # two SCMs in one workspace, user work in the first one, the package leaves the project, clean -s
    for w in ('w_mod', 'w_untracked', 'w_commit'):
        hists.append(((w, 's_drop'), (), ['clean', '-s'], 'nested'))
    hists.append((('s_drop',), (), ['clean', '-s'], 'nested'))
    # sibling SCM directories with a common name prefix: the first one is replaced (attic) / switched, the second one stays or leaves
    for h in (('s_url',), ('s_url', 'rerun'), ('s_url', 's_nested'), ('s_nested',), ('s_nested', 's_nested'), ('s_dev',), ('s_url', 's_url')):
        hists.append((h, (), None, 'siblings'))
    hists.append((('s_url',), (), ['clean', '-s'], 'siblings'))
    hists = sorted(set((h, ba, tuple(f) if f else None, init) for h, ba, f, init in hists), key=repr)
    if ctx.opts.get('only'):      # debugging aid: restrict to one initial project
        hists = [h for h in hists if h[3] == ctx.opts['only']]
    # fresh checkouts needed as reference: every (spec, upstream actions so far) reachable without user action
    need = needed_fresh(hists)
    fresh = dict(runner.pmap(fresh_job, sorted(need)))
    for kk, vv in fresh.items():
        if isinstance(vv, tuple) and vv and vv[0] == 'FAILED':
            ctx.violation('fresh-checkout-fails', 'spec %s upstream %s: %s' % (dict(kk[0]), kk[1], vv[1]), dict(spec=dict(kk[0])))
    ctx.log('%d histories over %d actions' % (len(hists), len(A)))
    nrun = 0
    for job, n, viols in runner.pmap_unordered(history_worker, [(h, ba, list(f) if f else None, fresh, init) for h, ba, f, init in hists], chunksize=2):
        nrun += n
        for key, what in viols:
            ctx.violation(key, what, dict(history=list(job[0]), bobargs=list(job[1]), final=job[2], init=job[3]))
    nrun += len(fresh)
    ctx.log('%d real bob invocations (%d reference checkouts)' % (nrun, len(fresh)))
    return ctx.finish(dict(
        states=sum(len(h[0]) + 1 for h in hists), transitions=nrun, traces_validated_against_impl=len(hists), evaluations=nrun, distinct_nontrivial=len(hists),
        rule='one history = recipe SCM edits / upstream changes / user actions in the source workspace, each followed by a real bob dev (or --clean-checkout), optionally a final bob clean; '
             'after every Bob run: every user marker still present (files or commits reachable from refs/HEAD/stash in workspace or attic), untouched workspaces equal a fresh checkout',
        exhaustive=True, samples=[dict(history=['w_commit', 's_dev']), dict(history=['s_tag', 'u_tagmove'])],
        bounds=dict(actions=A, depth=2 if quick else 3, histories=len(hists))),
        assumptions=['ignored untracked files are not user work (no .gitignore in the universe)', 'dangling objects do not count as preserved',
                     'url and import SCM convergence is exercised by C01/C05 (world W1); this universe is git only'])


def needed_fresh(hists):
    need = set()
    for h, ba, f, init in hists:
        spec, ups = dict(INITS[init]), []
        need.add((tuple(sorted(spec.items())), ()))
        for a in h:
            if a in SPEC_ACTIONS:
                s2 = apply_spec(spec, a)
                if s2 is not None: spec = s2
            elif a in UP_ACTIONS: ups.append(a)
            else: break
            if spec['dep'] and not (spec['ref'] == 'bc1' and 'u_rewrite' in ups): need.add((tuple(sorted(spec.items())), tuple(ups)))
    return need


def replay(ctx, body):
    r = body['replay']
    if 'history' not in r:
        print(fresh_job((tuple(sorted(r['spec'].items())), ()))); return 0
    h = (tuple(r['history']), tuple(r.get('bobargs', ())), r.get('final'), r.get('init', 'default'))
    fresh = dict(fresh_job(j) for j in sorted(needed_fresh([h])))
    job, n, viols = history_worker((h[0], h[1], h[2], fresh, h[3]))
    for v in viols: print(v)
    return 1 if viols else 0
