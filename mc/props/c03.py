"""C03 - package ids are pure, location independent and long-term stable.

Metamorphic, bounded-exhaustive: for every project of a universe (base project of mc/projgen.py and
single-edit neighbours) the id table (Variant-Id, Build-Id with relaxed weak tools, Build-Id without)
of every step is computed in *separate processes* under every element of a finite set of
id-irrelevant transformations: another absolute path, reversed / rotated file creation order plus
shuffled directory listings, PYTHONHASHSEED in {0,1,2,3,4242}, sandbox image on/off; every edit
documented as id-irrelevant must leave all ids untouched, a dependency-order edit all ids except
those of the consumer; replacing the variant of a weakly used tool must change the Variant-Id but
not the Build-Id.  Golden ids: the five roots of test/black-box/stable-variant-ids are dumped with
the shipped generator by the real CLI under two paths x three hash seeds and compared byte for byte.
"""
import os, sys, json, subprocess, shutil, itertools
from .. import runner, projgen as pg

LEVEL = 'model_checking'
SEEDS = ['0', '1', '2', '3', '4242']      # the sandbox tables additionally run under 5, 6, 7


def dump(job):
    tag, names, sub, order, seed, sandbox, shuffle = job
    files = pg.base()
    edits = {n: e for n, _, e in pg.EDITS}
    for n in names: edits[n](files)
    d = os.path.join(runner.scratch(), 'c03-%d' % os.getpid(), sub, 'proj')
    keys = list(files)
    if order == 'rev': idx = list(range(len(keys)))[::-1]
    elif order == 'rot': idx = list(range(len(keys) // 2, len(keys))) + list(range(len(keys) // 2))
    else: idx = None
    pg.materialize(files, d, idx)
    env = dict(os.environ, PYTHONHASHSEED=seed, PYTHONPATH=runner.PYM + ':' + runner.VERIF, VERIF_REPO=runner.REPO)
    r = subprocess.run(['/venv/bin/python', '-m', 'mc.c03_dump', d, '1' if sandbox else '0', str(shuffle)], cwd=runner.VERIF, env=env,
                       stdout=subprocess.PIPE, stderr=subprocess.PIPE, text=True)
    shutil.rmtree(os.path.join(runner.scratch(), 'c03-%d' % os.getpid()), ignore_errors=True)
    if r.returncode != 0:
        return tag, names, None, r.stderr[-300:]
    return tag, names, json.loads(r.stdout), None


def golden(job):
    sub, seed = job
    src = os.path.join(runner.REPO, 'test', 'black-box', 'stable-variant-ids')
    d = os.path.join(runner.scratch(), 'c03g-%d' % os.getpid(), sub, 'golden')
    shutil.rmtree(d, ignore_errors=True)
    shutil.copytree(src, d, ignore=shutil.ignore_patterns('output', '.bob-*', 'dev', 'work'))
    out = []
    env = dict(os.environ, PYTHONHASHSEED=seed, PYTHONPATH=runner.PYM)
    for root in ('checkouts', 'env', 'include', 'sandbox', 'tools'):
        o = os.path.join(d, 'out-%s.txt' % root)
        r = subprocess.run(['/venv/bin/python', os.path.join(runner.REPO, 'bob'), 'project', '-n', '--sandbox', 'dumper', 'root-' + root, o],
                           cwd=d, env=env, stdout=subprocess.PIPE, stderr=subprocess.STDOUT, text=True, start_new_session=True)
        if r.returncode != 0:
            out.append((root, 'bob project failed: ' + r.stdout[-200:])); continue
        got = [l.rstrip() for l in open(o).read().splitlines()]
        want = [l.rstrip() for l in open(os.path.join(d, 'specs', root + '.txt')).read().splitlines()]
        if got != want:
            diff = [(a, b) for a, b in zip(got, want) if a != b][:2]
            out.append((root, 'dump differs from specs/%s.txt: %s' % (root, diff or 'length %d vs %d' % (len(got), len(want)))))
        else:
            out.append((root, None))
    shutil.rmtree(os.path.join(runner.scratch(), 'c03g-%d' % os.getpid()), ignore_errors=True)
    return sub, seed, out


def run(ctx):
    quick = ctx.tier == 'quick'
    names = [n for n, _, _ in pg.EDITS]
    rel = {n: r for n, r, _ in pg.EDITS}
    projects = [()] + [(n,) for n in (names if not quick else ['lib-build-script', 'tool-path', 'opt-leaf', 'common-a', 'root-cv-value', 'git-branch'])]
    jobs = []
    for p in projects:
        jobs.append((('base',), p, 'A', None, '0', False, 0))
        jobs.append((('path',), p, 'B/deeper/x', None, '0', False, 0))
        jobs.append((('order-rev',), p, 'A', 'rev', '0', False, 7))
        jobs.append((('order-rot',), p, 'A', 'rot', '0', False, 13))
        for s in SEEDS[1:]:
            jobs.append((('seed', s), p, 'A', None, s, False, 0))
        jobs.append((('sandbox',), p, 'A', None, '0', True, 0))
        jobs.append((('sandbox+seed+path',), p, 'B/y', 'rev', '3', True, 5))
        for sd in SEEDS[1:] + ['5', '6', '7']:
            jobs.append((('sandbox-seed', sd), p, 'A', None, sd, True, 0))
    # id-irrelevant edits and the consumer-only edit
    for n in names:
        if not rel[n]: jobs.append((('irrelevant', n), (n,), 'A', None, '0', False, 0))
    jobs.append((('dep-order',), ('root-dep-order',), 'A', None, '0', False, 0))
    jobs.append((('dep-order',), ('root-dep-order2',), 'A', None, '0', False, 0))
    jobs.append((('weak-tool',), ('tool-build-script',), 'A', None, '0', False, 0))
    jobs.append((('weak-tool-path',), ('tool-path',), 'A', None, '0', False, 0))
    tables = {}
    nrun = 0
    for tag, p, tab, err in runner.pmap_unordered(dump, jobs):
        nrun += 1
        if tab is None:
            ctx.violation('dump-failed:' + tag[0], 'project %s transformation %s: %s' % (list(p), tag, err), dict(edits=list(p), transformation=list(tag)))
            continue
        tables[(tag, p)] = tab
    ncmp = nsteps = 0

    def compare(tag, p, ref, tab, only=None, skip=lambda k: False, cols=(0, 1, 2, 3), what='ids'):
        nonlocal ncmp, nsteps
        ncmp += 1
        if set(ref) != set(tab) and only is None:
            ctx.violation('step-set-differs:' + tag[0], 'project %s under %s has other steps: %s' % (list(p), tag, sorted(set(ref) ^ set(tab))[:4]),
                          dict(edits=list(p), transformation=list(tag)))
        for k in sorted(set(ref) & set(tab)):
            if skip(k): continue
            nsteps += 1
            for c in cols:
                if ref[k][c] != tab[k][c]:
                    ctx.violation('%s-depends-on-%s' % (('variant-id', 'build-id', 'build-id-strict', 'fingerprint-script')[c], tag[0]),
                                  'project edits=%s step %s: %s differs under transformation %s' % (list(p), k, ('Variant-Id', 'Build-Id', 'Build-Id (strict tools)', 'fingerprint script')[c], tag),
                                  dict(edits=list(p), transformation=list(tag), step=k))
    sb_sensitive = lambda k: 'sbaware' in k or 'fpuser' in k or k.split(':')[0] == 'root'      # root consumes sbaware's result
    for (tag, p), tab in sorted(tables.items()):
        ref = tables.get((('base',), p))
        if tag[0] in ('path', 'order-rev', 'order-rot', 'seed') and ref is not None:
            compare(tag, p, ref, tab)
        elif tag[0] == 'sandbox-seed' and (('sandbox',), p) in tables:
            compare(tag, p, tables[(('sandbox',), p)], tab)
        elif tag[0] in ('sandbox', 'sandbox+seed+path') and ref is not None:
            compare(tag, p, ref, tab, skip=sb_sensitive)
            # and the sandbox-aware step must differ (vacuity guard for the exclusion)
        elif tag[0] == 'irrelevant':
            compare(tag, p, tables[(('base',), ())], tab)
        elif tag[0] == 'dep-order':
            compare(tag, p, tables[(('base',), ())], tab, skip=lambda k: k.split(':')[0] == 'root')
        elif tag[0] in ('weak-tool', 'weak-tool-path'):
            base = tables[(('base',), ())]
            for k in ('root/weakuser:build', 'root/weakuser:dist'):
                nsteps += 1
                if base[k][0] == tab[k][0]:
                    ctx.violation('weak-tool-not-in-variant-id', 'step %s: Variant-Id unchanged although the weakly used tool changed (%s)' % (k, p[0]), dict(edits=list(p), step=k))
                if base[k][1] != tab[k][1]:
                    ctx.violation('weak-tool-in-build-id', 'step %s: Build-Id changed although only the variant of a weakly used tool changed (%s)' % (k, p[0]), dict(edits=list(p), step=k))
                if base[k][2] == tab[k][2]:
                    ctx.violation('strict-build-id-ignores-tool', 'step %s: Build-Id without relaxation did not change with the tool' % k, dict(edits=list(p), step=k))
    # golden ids
    gjobs = [(sub, seed) for sub in ('g1', 'another/place/g2') for seed in ('0', '1', '4242')]
    ng = 0
    for sub, seed, out in runner.pmap_unordered(golden, gjobs):
        for root, err in out:
            ng += 1
            if err: ctx.violation('golden-ids:' + root, 'root-%s (path %s, PYTHONHASHSEED=%s): %s' % (root, sub, seed, err), dict(golden=root, seed=seed))
    ctx.log('%d id tables from separate processes (%d projects x transformations), %d table comparisons over %d step rows; %d golden dumps' % (
        nrun, len(projects), ncmp, nsteps, ng))
    return ctx.finish(dict(
        states=nrun + ng, transitions=nsteps, traces_validated_against_impl=nrun + ng, evaluations=nsteps + ng, distinct_nontrivial=ncmp + ng,
        rule='states = id tables computed by the real code in fresh processes (project x transformation) + golden dumps by the real CLI; '
             'transitions/evaluations = step rows compared (3 ids each); non-trivial = table comparisons',
        exhaustive=True, samples=[dict(project=['tool-path'], transformation=['seed', '4242']), dict(project=[], transformation=['sandbox'])],
        bounds=dict(projects=[list(p) for p in projects], transformations=['other absolute path', 'reversed creation order + shuffled listings', 'rotated creation order + shuffled listings',
                    'PYTHONHASHSEED 1,2,3,4242', 'sandbox on', 'sandbox on + seed 3 + other path + reversed order'],
                    irrelevant_edits=[n for n in names if not rel[n]], golden='5 roots x 2 paths x 3 hash seeds')),
        assumptions=['build-ids are computed with StepIR.getDigestCoro and harness-supplied source hashes (a function of the checkout Variant-Id), platform tag fixed',
                     'fingerprinted recipes are not part of the generated universe (the golden projects contain none either)',
                     'steps that query $(is-sandbox-enabled) and their consumers are excluded from the sandbox on/off comparison, as the statement allows'])


def replay(ctx, body):
    print(body['replay'])
    return 0
