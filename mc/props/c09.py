"""C09 - archive uploads are atomic and never overwrite.

Engine E2: real LocalArchive code of 2-3 "processes" (threads under a baton) on one file
archive; every interleaving of their file-system calls within a preemption bound, plus a kill
or an I/O error injected at every intercepted call (and ENOSPC at every write) of every actor.

Reader invariant, evaluated by the harness after *every* step of every actor (= a reader at
every instant): under the artifact name there is nothing, or a file that decodes completely to
the tree of one of the writers; once present, its inode and bytes never change; metadata
files (.buildid) always hold one complete value.  A real reader actor (open early, read late)
must find "not found" or a complete artifact, never a corrupt one.
"""
import os, sys, io, gzip, tarfile, shutil, hashlib, itertools
from .. import runner, e2

LEVEL = 'model_checking'
BID = bytes.fromhex('aabbccddeeff00112233445566778899aabbccdd')
KEY = bytes.fromhex('1122ccddeeff00112233445566778899aabbccdd')


def mk_tree(d, tag):
    os.makedirs(os.path.join(d, 'content', 'sub'))
    with open(os.path.join(d, 'content', 'file.txt'), 'w') as f: f.write('payload of %s\n' % tag * 3)
    with open(os.path.join(d, 'content', 'sub', 'big.bin'), 'wb') as f: f.write((tag.encode() * 7 + b'\n') * 1500)
    os.symlink('file.txt', os.path.join(d, 'content', 'link'))
    with gzip.open(os.path.join(d, 'audit.json.gz'), 'wb') as f: f.write(b'{"audit-of": "%s"}' % tag.encode())


def art_sig(data):
    """Decode an artifact completely; returns the set of (member name, type, sha of content)
    or raises."""
    sig = []
    gzip.decompress(data)       # the whole gzip stream including its trailer (CRC, length) must be there
    with tarfile.open(fileobj=io.BytesIO(data), mode='r:gz') as tar:
        if tar.pax_headers.get('bob-archive-vsn') != '1': raise ValueError('no pax version')
        for m in tar:
            h = hashlib.sha1(tar.extractfile(m).read()).hexdigest() if m.isfile() else (m.linkname or '')
            sig.append((m.name, m.type, h))
    if not any(n == 'meta/audit.json.gz' for n, _, _ in sig): raise ValueError('no audit')
    return tuple(sorted(sig))


def tree_sig(d):
    """What art_sig gives for a tree packed by the real TarHelper._pack."""
    from bob.archive import TarHelper
    buf = io.BytesIO()
    TarHelper()._pack(None, buf, os.path.join(d, 'audit.json.gz'), os.path.join(d, 'content'))
    return art_sig(buf.getvalue())


class World:
    """Fresh directories + actors for one execution."""

    def __init__(self, scenario, root):
        import bob.archive as ba
        self.ba = ba
        self.root = root
        shutil.rmtree(root, ignore_errors=True)
        os.makedirs(root)
        self.T = os.path.join(root, 'T')
        self.S = os.path.join(root, 'S')
        os.makedirs(self.T); os.makedirs(self.S)
        self.fileMode = 0o640 if 'mode' in scenario else None
        self.nofail = 'nofail' in scenario
        self.valid_sigs = {}
        self.seen = {}              # path -> (ino, bytes)
        self.problems = []
        self.meta_values = set()
        self.actors = []
        self.execution = None
        e2.tempfile._name_sequence = e2.NameSeq()
        for tag in scenario:
            if tag in ('mode', 'nofail'): continue
            d = os.path.join(root, 'ws-' + tag)
            os.makedirs(d)
            if tag in ('A', 'B', 'C'):
                mk_tree(d, tag)
                self.valid_sigs[tree_sig(d)] = tag
                self.actors.append((tag, self.uploader(d)))
            elif tag == 'M':
                src = os.path.join(root, 'src-Z')
                os.makedirs(src); mk_tree(src, 'Z')
                self.valid_sigs[tree_sig(src)] = 'Z'
                sa = self.archive(self.S)
                sa._uploadPackage(BID, ba.ARTIFACT_SUFFIX, os.path.join(src, 'audit.json.gz'), os.path.join(src, 'content'))
                self.actors.append((tag, self.mirror(d)))
            elif tag == 'D':
                self.actors.append((tag, self.reader(d)))
            elif tag in ('U', 'V'):
                val = b'value-of-' + tag.encode() * 10
                self.meta_values.add(val)
                self.actors.append((tag, self.meta(val)))
            elif tag == 'R':
                self.actors.append((tag, self.metareader()))

    def archive(self, path):
        spec = {'backend': 'file', 'path': path}
        if self.fileMode is not None: spec['fileMode'] = self.fileMode
        if self.nofail: spec['flags'] = ['download', 'upload', 'nofail']
        return self.ba.LocalArchive(spec)

    def uploader(self, d):
        ar = self.archive(self.T)
        return lambda: ar._uploadPackage(BID, self.ba.ARTIFACT_SUFFIX, os.path.join(d, 'audit.json.gz'), os.path.join(d, 'content'))

    def mirror(self, d):
        sa = self.archive(self.S)
        ta = self.archive(self.T)
        return lambda: sa._downloadPackage(BID, self.ba.ARTIFACT_SUFFIX, os.path.join(d, 'audit.json.gz'),
                                           os.path.join(d, 'content'), [ta], d)

    def reader(self, d):
        ta = self.archive(self.T)

        def f():
            r = ta._downloadPackage(BID, self.ba.ARTIFACT_SUFFIX, os.path.join(d, 'audit.json.gz'), os.path.join(d, 'content'), [], d)
            if r[0]:
                return ('got', tree_sig_plain(d))
            return ('notfound',)
        return f

    def meta(self, val):
        ta = self.archive(self.T)
        return lambda: ta._uploadLocalFile(KEY, self.ba.BUILDID_SUFFIX, val)

    def metareader(self):
        ta = self.archive(self.T)
        return lambda: ta._downloadLocalFile(KEY, self.ba.BUILDID_SUFFIX)

    # reader-at-every-instant invariant
    def after_step(self, x):
        for dp, dn, fn in os.walk(self.T):
            for f in fn:
                p = os.path.join(dp, f)
                if f.endswith('-1.tgz'):
                    st = os.stat(p)
                    data = open(p, 'rb').read()
                    old = self.seen.get(p)
                    if old is None:
                        try:
                            sig = art_sig(data)
                            if sig not in self.valid_sigs:
                                self.problems.append(('reader-sees-foreign-content', 'artifact decodes to a tree of no writer'))
                        except Exception as e:
                            self.problems.append(('reader-sees-incomplete-artifact', '%d bytes under the artifact name do not decode: %s: %s' % (len(data), type(e).__name__, str(e)[:60])))
                        self.seen[p] = (st.st_ino, data)
                    else:
                        if old[0] != st.st_ino:
                            self.problems.append(('artifact-replaced', 'inode under the artifact name changed'))
                            self.seen[p] = (st.st_ino, data)
                        elif old[1] != data:
                            self.problems.append(('artifact-modified', 'bytes under the artifact name changed (%d -> %d bytes)' % (len(old[1]), len(data))))
                            self.seen[p] = (st.st_ino, data)
                elif f.endswith('.buildid'):
                    data = open(p, 'rb').read()
                    if data not in self.meta_values:
                        self.problems.append(('meta-file-incomplete', 'metadata file holds %r' % data[:30]))
        gone = [p for p in self.seen if not os.path.exists(p)]
        for p in gone:
            self.problems.append(('artifact-removed', 'artifact disappeared again'))
            del self.seen[p]

    def cleanup(self):
        shutil.rmtree(self.root, ignore_errors=True)


def tree_sig_plain(d):
    """signature of an extracted workspace (names/types/content), comparable between readers"""
    out = []
    c = os.path.join(d, 'content')
    for dp, dn, fn in os.walk(c):
        for n in sorted(dn + fn):
            p = os.path.join(dp, n)
            rel = os.path.relpath(p, c)
            if os.path.islink(p): out.append((rel, 'l', os.readlink(p)))
            elif os.path.isdir(p): out.append((rel, 'd', ''))
            else: out.append((rel, 'f', hashlib.sha1(open(p, 'rb').read()).hexdigest()))
    return tuple(sorted(out))


_installed = False


def install():
    global _installed
    if _installed: return
    import bob.archive as ba
    ba.os = e2.OsProxy()
    ba.NamedTemporaryFile = e2.named_temporary_file
    ba.open = e2.open_proxy

    class Sig:
        SIGINT = 2; SIG_DFL = 0
        default_int_handler = None
        @staticmethod
        def signal(*a): return None
    ba.signal = Sig
    _installed = True


def expected_plain_sigs(world):
    return None


def run_scenario(job):
    scenario, bound, fault, limit = job
    install()
    from bob.errors import BuildError
    root = os.path.join(runner.scratch(), 'c09')
    stats = dict(execs=0, viol=[], outcomes=set(), steps=0, capped=False, maxpoints={}, nwrites={}, sample=None)

    def make():
        return World(scenario, root)

    def check(x, world):
        stats['execs'] += 1
        stats['steps'] += len(x.steps)
        probs = list(world.problems) + [('scheduler', p) for p in x.problems]
        results = {}
        for a in x.actors:
            stats['maxpoints'][a.idx] = max(stats['maxpoints'].get(a.idx, 0), a.npoints)
            stats['nwrites'][a.idx] = max(stats['nwrites'].get(a.idx, 0), getattr(a, 'nwrites', 0))
            faulted = fault is not None and fault[0] == a.idx
            if a.exc is not None:
                if faulted and isinstance(a.exc, (BuildError,)):
                    results[a.name] = 'failed'
                else:
                    probs.append(('actor-raises:%s:%s' % (a.name if a.name in 'DMR' else 'uploader', type(a.exc).__name__),
                                  '%s raised %s: %s' % (a.name, type(a.exc).__name__, str(a.exc)[:120])))
                    results[a.name] = 'exc'
            elif a.killed:
                results[a.name] = 'killed'
            else:
                r = a.result
                results[a.name] = (('ok' if r[0] == 'ok' else 'skipped' if 'skipped' in r[0] else 'got' if r[0] == 'got' else 'notfound' if r[0] == 'notfound' else 'error') if isinstance(r, tuple) and isinstance(r[0], str) else ('ok' if (isinstance(r, tuple) and r[0]) else 'none'))
        # end state: someone reported success/skip => artifact is there
        arts = [p for p in world.seen]
        ups = [a for a in x.actors if a.name in 'ABC']
        if ups and any(results[a.name] == 'ok' for a in ups) and not arts:
            probs.append(('upload-ok-but-no-artifact', 'an uploader reported ok but nothing is under the artifact name'))
        for a in x.actors:
            if a.name == 'D' and a.exc is None and not a.killed and a.result and a.result[0] == 'got':
                want = {tree_sig_plain(os.path.join(os.path.dirname(world.T), 'ws-' + t)) if t != 'Z' else tree_sig_plain(os.path.join(os.path.dirname(world.T), 'src-Z'))
                        for t in world.valid_sigs.values()}
                if a.result[1] not in want:
                    probs.append(('reader-extracted-wrong-tree', 'reader D extracted a tree that no writer packed'))
        stats['outcomes'].add(tuple(sorted(results.items())) + (('artifact', bool(arts)),))
        if stats['sample'] is None and len(x.steps) > 6:
            stats['sample'] = [' '.join(s) for s in x.steps[:40]]
        for key, what in probs:
            stats['viol'].append((key, what, dict(scenario=list(scenario), choices=list(x.choices), fault=fault,
                                                  steps=[' '.join(s) for s in x.steps])))

    e2.explore(make, bound, check, fault=fault, limit=limit, stats=stats)
    stats['outcomes'] = sorted(stats['outcomes'])
    stats['viol'] = stats['viol'][:30]
    return job, stats


def size_job(job):
    """Mirror copies for a window of artifact sizes (no concurrency): upload a tree with an incompressible payload of
    every given length to the source archive, download it with the target archive as cache mirror, and decode what
    appears under the artifact name of the mirror completely."""
    payloads, = job
    import bob.archive as ba, random
    assert not _installed
    root = os.path.join(runner.scratch(), 'c09s-%d' % os.getpid())
    out = []
    for n in payloads:
        shutil.rmtree(root, ignore_errors=True)
        src = os.path.join(root, 'src'); os.makedirs(os.path.join(src, 'content'))
        with open(os.path.join(src, 'content', 'blob.bin'), 'wb') as f: f.write(random.Random(n).randbytes(n))
        with gzip.open(os.path.join(src, 'audit.json.gz'), 'wb') as f: f.write(b'{"audit-of": "size-%d"}' % n)
        S, T, ws = os.path.join(root, 'S'), os.path.join(root, 'T'), os.path.join(root, 'ws')
        for d in (S, T, ws): os.makedirs(d)
        sa = ba.LocalArchive({'backend': 'file', 'path': S}); ta = ba.LocalArchive({'backend': 'file', 'path': T, 'flags': ['cache']})
        r = sa._uploadPackage(BID, ba.ARTIFACT_SUFFIX, os.path.join(src, 'audit.json.gz'), os.path.join(src, 'content'))
        assert r[0] == 'ok', r
        r = sa._downloadPackage(BID, ba.ARTIFACT_SUFFIX, os.path.join(ws, 'audit.json.gz'), os.path.join(ws, 'content'), [ta], ws)
        sdata = open(sa._remoteName(BID, ba.ARTIFACT_SUFFIX), 'rb').read()
        tname = ta._remoteName(BID, ba.ARTIFACT_SUFFIX)
        prob = None
        if not (isinstance(r, tuple) and r[0]):
            prob = ('mirror-download-fails', 'download of a %d byte artifact with a cache mirror returned %r' % (len(sdata), r))
        elif not os.path.exists(tname):
            prob = ('mirror-publishes-nothing', 'successful mirroring download left nothing under the artifact name of the cache')
        else:
            tdata = open(tname, 'rb').read()
            try:
                if art_sig(tdata) != art_sig(sdata): prob = ('mirror-publishes-foreign-content', 'mirror copy decodes to another tree')
            except Exception as e:
                prob = ('reader-sees-incomplete-artifact:mirror-copy', 'source artifact has %d bytes, the copy published in the cache %d bytes and does not decode: %s: %s' % (
                    len(sdata), len(tdata), type(e).__name__, str(e)[:80]))
        out.append((n, len(sdata), prob))
    shutil.rmtree(root, ignore_errors=True)
    return out


def size_windows(quick):
    """payload lengths whose artifacts straddle the read-ahead boundaries of the tar stream reader (512 + k*10240 bytes),
    calibrated with one real pack; thorough: one full period of it as well"""
    import random, tempfile
    from bob.archive import TarHelper
    d = tempfile.mkdtemp(dir=runner.scratch())
    os.makedirs(os.path.join(d, 'content'))
    with open(os.path.join(d, 'content', 'blob.bin'), 'wb') as f: f.write(random.Random(1).randbytes(10000))
    with gzip.open(os.path.join(d, 'audit.json.gz'), 'wb') as f: f.write(b'{"audit-of": "size-10000"}')
    buf = io.BytesIO(); TarHelper()._pack(None, buf, os.path.join(d, 'audit.json.gz'), os.path.join(d, 'content'))
    over = len(buf.getvalue()) - 10000          # artifact bytes - payload bytes for incompressible payloads
    shutil.rmtree(d, ignore_errors=True)
    wins = []
    for k in (1, 2) if quick else (1, 2, 3, 7):
        start = 512 + k * 10240 - over - 40
        wins += [list(range(a, a + 32)) for a in range(start, start + 128, 32)]
    wins += [list(range(a, a + 40)) for a in (1, 400, 5000)]
    if not quick:
        wins += [list(range(a, a + 64)) for a in range(11000, 11000 + 10240, 64)]
    return wins


SCENARIOS_Q = [('A', 'B'), ('A', 'B', 'mode'), ('A', 'B', 'nofail'), ('A', 'M', 'nofail'), ('U', 'V', 'nofail'), ('M', 'D', 'nofail'), ('M', 'D'), ('A', 'D'), ('A', 'M'), ('A', 'B', 'D'), ('A', 'M', 'D'), ('U', 'V'), ('U', 'V', 'R'), ('A', 'B', 'M')]
SCENARIOS_T = SCENARIOS_Q + [('A', 'B', 'C'), ('A', 'B', 'M', 'D'), ('A', 'M', 'mode')]


def run(ctx):
    quick = ctx.tier == 'quick'
    pb2 = int(ctx.opts.get('pb', 2))
    # phase 0: mirror copies over a window of artifact sizes (sequential; must run before the proxies are installed here)
    nsizes = 0
    residues = set()
    for res in runner.pmap(size_job, [(w,) for w in size_windows(quick)]):
        for n, ssize, prob in res:
            nsizes += 1; residues.add((ssize - 512) % 10240)
            if prob: ctx.violation(prob[0], 'payload %d bytes: %s' % (n, prob[1]), dict(part='size', payload=n))
    ctx.log('mirror copies for %d payload lengths; %d distinct residues of (artifact size - 512) mod 10240, %d of them within 0..63' % (
        nsizes, len(residues), len([r for r in residues if r < 64])))
    jobs = []
    scen = SCENARIOS_Q if quick else SCENARIOS_T
    # phase 1: schedules
    for s in scen:
        n = len([t for t in s if t not in ('mode', 'nofail')])
        bound = pb2 if (n <= 2 or not quick) else 1
        if not quick and n <= 2: bound = 3       # 2 actors: one more preemption than quick (all interleavings do not fit: >200000 per scenario)
        jobs.append((s, bound, None, 200000 if quick else 20000))
    # discover fault sites from the default schedule of each scenario
    pre = runner.pmap(run_scenario, [(s, 0, None, 1) for s in scen])
    for (s, _, _, _), st in pre:
        nact = len([t for t in s if t not in ('mode', 'nofail')])
        for ai in range(nact):
            for k in range(1, st['maxpoints'].get(ai, 0) + 1):
                for kind in ('kill', 'eio'):
                    jobs.append((s, 0 if quick else 1, (ai, k, kind), 20000 if quick else 3000))
        if s in (('A', 'B'), ('A', 'M'), ('U', 'V'), ('A', 'B', 'nofail'), ('A', 'M', 'nofail'), ('U', 'V', 'nofail'), ('M', 'D', 'nofail'), ('M', 'D')):
            # ENOSPC at every buffered write of the first and second actor (writes are not
            # scheduling points; one run per write count, default schedule)
            pr = runner.pmap(run_scenario, [(s, 0, (ai, 10 ** 9, 'eio-write'), 1) for ai in range(2)], jobs=1)
            for ai, (_, st2) in enumerate(pr):
                for k in range(1, st2['nwrites'].get(ai, 0) + 1):
                    jobs.append((s, 0, (ai, k, 'eio-write'), 100))
    ctx.log('%d exploration jobs (%d scenarios; fault sites enumerated from the default schedules)' % (len(jobs), len(scen)))
    execs = steps = 0
    outcomes = set()
    capped = False
    samples = []
    nfault = 0
    for job, st in runner.pmap_unordered(run_scenario, jobs):
        execs += st['execs']; steps += st['steps']; capped |= st['capped']
        if job[2]: nfault += st['execs']
        for o in st['outcomes']: outcomes.add((job[0], o))
        if st['sample'] and len(samples) < 3 and job[2] is None:
            samples.append(dict(scenario=list(job[0]), schedule=st['sample']))
        for key, what, rep in st['viol']:
            ctx.violation('%s' % key, 'scenario=%s fault=%s: %s' % ('+'.join(job[0]), job[2], what), rep)
    ctx.log('%d executions (%d with an injected fault), %d steps, %d distinct (scenario, outcome) pairs, capped=%s' % (
        execs, nfault, steps, len(outcomes), capped))
    return ctx.finish(dict(
        states=steps, transitions=steps, traces_validated_against_impl=execs,
        evaluations=execs, distinct_nontrivial=execs,
        rule='one evaluation = one complete execution of the real upload/mirror/download code of 2-4 actors under one schedule '
             '(choice sequence) and at most one injected fault; all schedules within the preemption bound are enumerated, every '
             'execution differs from all others in its choice sequence or fault; the reader invariant is evaluated after every '
             'step (states = steps); non-trivial = every execution (at least two actors on one build-id)',
        exhaustive=not capped, samples=samples,
        bounds=dict(scenarios=['+'.join(s) for s in scen], preemption_bound_2actors=(pb2 if quick else 3),
                    preemption_bound_3plus=(1 if quick else pb2),
                    faults='kill and ENOSPC at every intercepted call of every actor (default schedule%s), ENOSPC at every write of A/M/U' % ('' if quick else ' and every schedule with <=1 preemption')),
        mirror_sizes=dict(payload_lengths=nsizes, distinct_size_residues=len(residues)),
        executions=execs, fault_executions=nfault, distinct_outcomes=len(outcomes)),
        assumptions=['one thread per process; scheduling points are the calls into os, os.path, NamedTemporaryFile, open and file close made by bob.archive; '
                     'code between two points is private to the actor (buffered writes reach the kernel when the real buffer flushes)',
                     'tmpfs supplies link/rename/O_EXCL semantics; a kill discards unflushed buffers (fds redirected to /dev/null)'])


def replay(ctx, body):
    r = body['replay']
    if r.get('part') == 'size':
        print(size_job(([r['payload']],))); return 0
    install()
    root = os.path.join(runner.scratch(), 'c09')
    w = World(tuple(r['scenario']), root)
    x = e2.Execution(w.actors, r['choices'], tuple(r['fault']) if r.get('fault') else None, w.after_step)
    w.execution = x
    x.run()
    for s in x.steps: print('  step:', ' '.join(s))
    print('problems:', w.problems, x.problems)
    for a in x.actors: print(a.name, 'result', a.result, 'exc', repr(a.exc), 'killed', a.killed)
    return 0
