"""C07 - binary artifacts are reused exactly when they are the right ones.

Engine E1 with two workspaces on world W7 (W1 + file archive + git source with a local upstream
+ a fingerprinted package whose fingerprint prints an emulated host id).  An uploader U at path
P1 goes through every history of <=dU actions (recipe/source edits, an uncommitted user edit in
its git checkout, a new upstream commit, a move to another "host"), building with --upload
after each; against every archive so reached a downloader D in a fresh directory at another
path builds a set of project states (U's state, the base state, a neighbour state; same and
other host) in every download mode.
Invariants: (I1) whenever D's build succeeds its result equals a purely local clean build of
D's state (modes without "forced" must always succeed); (I2) if U uploaded exactly D's state
from clean sources on the same host, `--download yes` executes no build or package step and
`--download deps` only those of the root package; (I3) over all builds of the universe equal
Build-Ids imply equal package content, and local builds of one state at different paths get
equal Build-Ids for every package.
"""
import os, sys, shutil, itertools, json, gzip, glob
from .. import runner, e1, w1, w7
from . import c01

LEVEL = 'model_checking'
MODES = ['yes', 'deps', 'forced', 'forced-deps', 'forced-fallback', 'packages=lib']
U_ACTIONS = ['e:libscript', 'e:srcmod', 'e:toolpath', 'e:provide', 'e:toolscript', 'dirty', 'upstream', 'hostB']


def collect_ids(proj):
    """{package name: (build-id, canon of dist)} for every dist workspace with an audit"""
    res = []
    for a in glob.glob(os.path.join(proj, 'work', '**', 'dist', '*', 'audit.json.gz'), recursive=True):
        ws = os.path.join(os.path.dirname(a), 'workspace')
        if not os.path.isdir(ws): continue
        try:
            rec = json.loads(gzip.open(a, 'rb').read().decode())['artifact']
        except Exception:
            continue
        res.append((rec['meta'].get('recipe'), rec['build-id'], hash(e1.tree_canon(os.path.realpath(ws)))))
    return res


def universe_worker(job):
    uhist, quick = job
    base = os.path.join(runner.scratch(), 'c07-%d' % os.getpid())
    shutil.rmtree(base, ignore_errors=True)
    w7.make_universe(base); w1.downloads(base + '/dl')
    os.makedirs(base + '/mark')
    env = {'VERIF_LOG': base + '/log', 'VERIF_MARK': base + '/mark'}
    viol = []
    nrun = 0
    ids = []            # (where, package, build-id, content hash)
    refcache = {}

    def bob(D, v, extra, nonce=None):
        nonlocal nrun
        open(base + '/log', 'w').close()
        rc, out = e1.run_bob(D.d, ['build'] + extra + ['root'] + w7.args(v, base), dict(env, VERIF_NONCE=nonce) if nonce else env)
        nrun += 1
        return rc, out, e1.read_log(base + '/log')

    def ref(v, n, host):
        key = (c01.vec_key(v), n, host)
        if key not in refcache:
            res = []
            for k in (0, 1) if len(refcache) == 0 else (0,):
                w7.set_host(base, host)
                R = e1.Dir(base + '/ref%d/%s/proj' % (len(refcache), 'x' * k)); R.reset(); R.sync(w7.files(v, base))
                rc, out, log = bob(R, v, ['--download', 'no'])
                rp = e1.result_path(out)
                res.append((rc, e1.tree_canon(os.path.join(R.d, rp[0])) if rc == 0 and rp else None, collect_ids(R.d)))
                ids.extend(('ref', p, b, c) for p, b, c in res[-1][2])
                shutil.rmtree(os.path.dirname(R.d), ignore_errors=True)
            if len(res) == 2 and res[0][0] == 0 and res[1][0] == 0 and sorted((p, b) for p, b, c in res[0][2]) != sorted((p, b) for p, b, c in res[1][2]):
                viol.append(('build-id-depends-on-location', 'two local builds of the base state at different paths get different Build-Ids'))
            refcache[key] = res[0]
        return refcache[key]

    if uhist == ('wrongpred',):
        # a live build-id prediction that turns out wrong: the uploader's checkout of dl (declared deterministic) differs from the
        # downloader's.  Predictions are trusted as long as an artifact is found, so the artifacts of root and dl are removed:
        # root has to be built and needs dl first, dl gets checked out, the mismatch is noticed - and lib2/app, whose Build-Ids
        # derive from the wrong prediction, must not be taken from the archive
        v = w1.zero(); v['lib2'] = 1
        w7.set_host(base, 'hostA')
        U = e1.Dir(base + '/u/proj'); U.reset(); U.sync(w7.files(v, base))
        rc, out, log = bob(U, v, ['--upload'], nonce='old')
        if rc != 0: return job, nrun, [('uploader-build-fails', out[-300:])], 0
        gone = 0
        for p, b, c in collect_ids(U.d):
            if p in ('dl', 'root'):
                ap = os.path.join(base, 'archive', b[0:2], b[2:4], b[4:] + '-1.tgz')
                if os.path.exists(ap): os.unlink(ap); gone += 1
        if gone != 2: viol.append(('harness', '%d of 2 artifacts found in the archive' % gone))
        R = e1.Dir(base + '/refw/proj'); R.reset(); R.sync(w7.files(v, base))
        rc, out, log = bob(R, v, ['--download', 'no'], nonce='new')
        rp = e1.result_path(out)
        want = e1.tree_canon(os.path.join(R.d, rp[0])) if rc == 0 and rp else None
        for m in ('yes', 'deps'):
            Dn = e1.Dir(base + '/d/else/where/proj'); Dn.reset(); Dn.sync(w7.files(v, base))
            rc, out, log = bob(Dn, v, ['--download', m], nonce='new')
            if rc != 0:
                viol.append(('download-build-fails:wrong-prediction', 'mode %s: %s' % (m, out[-250:])))
            else:
                rp = e1.result_path(out)
                got = e1.tree_canon(os.path.join(Dn.d, rp[0])) if rp else None
                if got != want:
                    viol.append(('download-differs-from-local-build:wrong-prediction', 'mode %s, the checkout of dl differs from what its live build-id predicted: %s' % (m, c01._diff(got, want))))
            shutil.rmtree(base + '/d', ignore_errors=True)
        shutil.rmtree(base, ignore_errors=True)
        return job, nrun, viol, 0
    # ---- uploader
    U = e1.Dir(base + '/u/proj'); U.reset()
    v = w1.zero(); n = 0; host = 'hostA'; dirty = False
    U.sync(w7.files(v, base))
    uploaded = set()
    rc, out, log = bob(U, v, ['--upload'])
    if rc != 0: return job, nrun, [('uploader-build-fails', out[-300:])], 0
    uploaded.add((c01.vec_key(v), n, host))
    for a in uhist:
        if a.startswith('e:'):
            v[a[2:]] ^= 1; U.sync(w7.files(v, base))
        elif a == 'dirty':
            g = glob.glob(os.path.join(U.d, 'work', 'gsrc', 'src', '*', 'workspace', 'g.txt'))
            with open(g[0], 'a') as f: f.write('local hack of the uploader\n')
            dirty = True
        elif a == 'upstream':
            n += 1; w7.upstream_commit(base, n)
        elif a == 'hostB':
            host = 'hostB'
        w7.set_host(base, host)
        rc, out, log = bob(U, v, ['--upload'])
        if rc != 0:
            # an upstream change of a file the user has modified locally: the update is refused (user work is never overwritten)
            if dirty and n > 0 and 'merge --ff-only' in out: break
            viol.append(('uploader-build-fails', 'after %s: %s' % (a, out[-300:]))); break
        if not dirty:
            uploaded.add((c01.vec_key(v), n, host))
            # the uploader's own incremental result (same workspace, possibly another host or upstream now) is a local build too
            rp = e1.result_path(out)
            got = e1.tree_canon(os.path.join(U.d, rp[0])) if rp else None
            want = ref(v, n, host)
            w7.set_host(base, host)
            if got != want[1]:
                viol.append(('uploader-result-differs-from-clean-build:after-' + a.replace('e:', ''), 'uploader history %s: %s' % (list(uhist), c01._diff(got, want[1]))))
        ids.extend(('U', p, b, c) for p, b, c in collect_ids(U.d))
    # ---- downloader experiments
    dstates = []
    vz = w1.zero()
    vn = dict(v); vn['libscript'] ^= 1
    other = 'hostB' if host == 'hostA' else 'hostA'
    for vd, hd, modes in ((v, host, MODES), (vz, host, MODES if not quick else ['yes', 'forced-fallback', 'packages=lib']), (vn, host, ['yes', 'forced-fallback']),
                          (v, other, ['yes', 'deps', 'forced-fallback'] if not quick else ['yes'])):
        for m in modes:
            dstates.append((vd, hd, m))
    ndl = 0
    for i, (vd, hd, m) in enumerate(dstates):
        want = ref(vd, n, hd)
        w7.set_host(base, hd)
        Dn = e1.Dir(base + '/d/some/where/else/proj'); Dn.reset(); Dn.sync(w7.files(vd, base))
        rc, out, log = bob(Dn, vd, ['--download', m])
        desc = 'uploader history %s; downloader state %s host %s mode %s' % (list(uhist), [f for f in w1.FEATURES if vd[f]], hd, m)
        if rc != 0:
            if not m.startswith('forced'):      # every forced mode may fail when an artifact is missing
                viol.append(('download-build-fails:' + m, desc + ': ' + out[-250:]))
        else:
            rp = e1.result_path(out)
            got = e1.tree_canon(os.path.join(Dn.d, rp[0])) if rp else None
            if got != want[1]:
                viol.append(('download-differs-from-local-build:' + m.split('=')[0], desc + ': ' + c01._diff(got, want[1])))
            ids.extend(('D', p, b, c) for p, b, c in collect_ids(Dn.d))
            if (c01.vec_key(vd), n, hd) in uploaded:
                steps = [l for l in log if l.endswith((' build', ' package'))]
                if m == 'yes' and steps:
                    viol.append(('missed-sharing:yes', desc + ': everything was uploaded for this state but the downloader executed %s' % steps))
                if m == 'deps' and [s for s in steps if not s.startswith('root ')]:
                    viol.append(('missed-sharing:deps', desc + ': dependencies were uploaded but the downloader executed %s' % steps))
                ndl += 1
        shutil.rmtree(base + '/d', ignore_errors=True)
    # ---- I3 no false sharing
    byid = {}
    for where, p, b, c in ids:
        o = byid.setdefault((p, b), (c, where))
        if o[0] != c:
            viol.append(('build-id-collision', 'uploader history %s: package %s has two different contents under one Build-Id %s (%s vs %s)' % (list(uhist), p, b[:10], o[1], where)))
    shutil.rmtree(base, ignore_errors=True)
    seen = {}
    for k, w in viol: seen.setdefault(k, (k, w))
    return job, nrun, list(seen.values()), ndl


def run(ctx):
    quick = ctx.tier == 'quick'
    dU = int(ctx.opts.get('du', 1 if quick else 2))
    hists = [()]
    for L in range(1, dU + 1):
        for h in itertools.product(U_ACTIONS, repeat=L):
            if len(set(h)) < len(h) and L > 1 and not any(a.startswith('e:') for a in h): continue
            hists.append(h)
    hists.append(('wrongpred',))
    nrun = ndl = 0
    for job, n, viols, d in runner.pmap_unordered(universe_worker, [(h, quick) for h in hists], chunksize=1):
        nrun += n; ndl += d
        for key, what in viols:
            ctx.violation(key, what, dict(uploader_history=list(job[0])))
    ctx.log('%d uploader histories, %d real bob invocations, %d downloader builds of a fully uploaded state' % (len(hists), nrun, ndl))
    return ctx.finish(dict(
        states=len(hists), transitions=nrun, traces_validated_against_impl=nrun, evaluations=nrun, distinct_nontrivial=ndl,
        rule='one universe per uploader history (own archive, upstream repository and host id file); after the uploader builds with --upload a downloader in a fresh directory at '
             'another path builds 3 project states x same/other host x download modes, each compared with a purely local clean build; non-trivial = downloader builds of a '
             'state that was uploaded from clean sources (must not execute steps)',
        exhaustive=True, samples=[dict(uploader=['dirty'], downloader=dict(state='same', mode='yes')), dict(uploader=['upstream'], downloader=dict(state='base', mode='forced'))],
        bounds=dict(uploader_depth=dU, uploader_actions=U_ACTIONS, modes=MODES)),
        assumptions=['host differences are emulated through the fingerprint script output (a file outside the projects)', 'step scripts are deterministic and content revealing'])


def replay(ctx, body):
    print(universe_worker((tuple(body['replay']['uploader_history']), ctx.tier == 'quick'))[2])
    return 0
