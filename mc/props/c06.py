"""C06 - parallel builds are schedule independent and bounded.

Engine E3 (virtual asyncio loop, enumerated external events), two harnesses on the real code:

 1. JobServerSemaphore alone (both recursive modes, real pipe): k tasks x programs of
    acquire / work / release / yield-while-waiting, n tokens, optionally a foreign make process
    taking and returning tokens on the raw pipe.  Invariants at every iteration: running tasks
    (+ tokens held by the foreign process) <= budget, no exception; at the end every task
    finished (no lost wake-up), the pipe holds exactly the initial tokens (none lost, none
    duplicated).
 2. LocalBuilder.cook on real parsed projects (DAG shapes x jobs x keep-going x failing step)
    with _runShell replaced by a harness future: monitors for dependency order, once-only,
    <= jobs, failure confinement, token conservation, result equal to the sequential run.
"""
import os, sys, asyncio, itertools, shutil, json, hashlib
from .. import runner, e3

LEVEL = 'model_checking'


# ============================================================================ semaphore harness
class SemWorld(e3.World):
    def __init__(self, programs, ntokens, recursive, thief):
        self.programs, self.ntokens, self.recursive, self.thief = programs, ntokens, recursive, thief
        self.problems = []

    def setup(self, loop):
        from bob.builder import JobServerSemaphore
        self.r, self.w = os.pipe()
        os.set_blocking(self.r, False)
        self.tokens = bytes(range(1, self.ntokens + 1))
        if self.tokens: os.write(self.w, self.tokens)
        self.sem = JobServerSemaphore((self.r, self.w), self.recursive)
        self.budget = self.ntokens + (1 if self.recursive else 0)
        self.running = set()
        self.waiting = {}       # task idx -> future
        self.order = []
        self.done = set()
        self.failed = {}
        self.thief_held = []
        self.max_running = 0
        self.tasks = [loop.create_task(self.body(i, p)) for i, p in enumerate(self.programs)]

    async def wait_ext(self, i):
        f = asyncio.get_event_loop().create_future()
        self.waiting[i] = f
        self.order.append(i)
        await f

    async def body(self, i, prog):
        try:
            for op in prog:
                if op == 'A':
                    await self.sem.acquire()
                    self.running.add(i)
                    self.check_budget('after acquire of task %d' % i)
                elif op == 'W':
                    await self.wait_ext(i)
                elif op == 'R':
                    self.running.discard(i)
                    self.sem.release()
                elif op == 'Y':     # builder's __yieldJobWhile: give the slot back while waiting
                    self.running.discard(i)
                    self.sem.release()
                    await self.wait_ext(i)
                    await self.sem.acquire()
                    self.running.add(i)
                    self.check_budget('after re-acquire of task %d' % i)
            self.done.add(i)
        except asyncio.CancelledError:
            raise
        except BaseException as e:
            self.failed[i] = e
            self.problems.append(('semaphore-raises:' + type(e).__name__, 'task %d: %s: %s' % (i, type(e).__name__, e)))

    def check_budget(self, where):
        n = len(self.running) + len(self.thief_held)
        self.max_running = max(self.max_running, len(self.running))
        if n > self.budget:
            self.problems.append(('over-budget', '%d jobs run (%d tasks + %d foreign tokens) with a budget of %d %s' % (
                n, len(self.running), len(self.thief_held), self.budget, where)))

    def pending(self):
        return [str(i) for i in self.order if i in self.waiting and not self.waiting[i].done()]

    def complete(self, name):
        i = int(name)
        f = self.waiting.pop(i)
        self.order.remove(i)
        f.set_result(None)

    def ext_actions(self):
        if not self.thief: return []
        acts = []
        if self.thief_held: acts.append('return')
        if len(self.thief_held) < self.thief:
            import select
            if select.select([self.r], [], [], 0)[0]: acts.append('steal')
        return acts

    def do_ext(self, name):
        if name == 'steal':
            try:
                self.thief_held.append(os.read(self.r, 1))
                self.check_budget('after foreign process took a token')
            except BlockingIOError:
                pass
        else:
            os.write(self.w, self.thief_held.pop())

    def finished(self):
        return len(self.done) + len(self.failed) == len(self.programs) and not self.thief_held

    def after_iteration(self, loop):
        pass

    def teardown(self):
        try:
            left = b''
            try:
                left = os.read(self.r, 100)
            except BlockingIOError:
                pass
            self.left = left
        finally:
            os.close(self.r); os.close(self.w)


def sem_job(job):
    programs, ntokens, recursive, thief, bound, limit = job
    stats = dict(execs=0, viol=[], outcomes=set(), capped=False, iters=0, sample=None)

    def make():
        return SemWorld(programs, ntokens, recursive, thief)

    def check(x, w):
        stats['execs'] += 1
        stats['iters'] += len(x.choices)
        probs = list(w.problems) + list(x.problems)
        if not x.problems and not w.failed:
            if sorted(w.left) != sorted(w.tokens):
                probs.append(('token-conservation', 'pipe holds %r at the end, initially %r' % (sorted(w.left), sorted(w.tokens))))
        for ctx in x.loop._exc:
            probs.append(('loop-exception', str(ctx.get('exception') or ctx.get('message'))[:100]))
        stats['outcomes'].add((tuple(x.log), w.max_running))
        if stats['sample'] is None and len(x.log) > 3: stats['sample'] = list(x.log)
        for key, what in probs:
            stats['viol'].append((key + (':recursive' if recursive else ''), what,
                                  dict(part='sem', programs=programs, ntokens=ntokens, recursive=recursive, thief=thief,
                                       choices=list(x.choices), events=list(x.log))))
    e3.explore(make, bound, check, limit, stats)
    stats['outcomes'] = len(stats['outcomes'])
    stats['viol'] = stats['viol'][:20]
    return job[:4], stats


def sem_jobs(quick):
    jobs = []
    progs = ['AWR', 'AWRAWR', 'AWYWR', 'WAWR'] if not quick else ['AWR', 'AWYWR', 'WAWR']
    kmax = 3 if quick else 4
    for k in range(1, kmax + 1):
        for combo in itertools.combinations_with_replacement(progs, k):
            for n in range(0, 3 if quick else 4):
                for rec in (False, True):
                    if not rec and n == 0: continue         # nobody could ever run
                    for thief in (0, 1):
                        if thief and n == 0: continue
                        if quick and k == 3 and (thief or combo.count('AWYWR') > 1): continue
                        bound = 1 if quick else 2
                        if k >= 4: bound = 1
                        jobs.append((combo, n, rec, thief, bound, 40000))
    return jobs


# ============================================================================ driver
def run(ctx):
    quick = ctx.tier == 'quick'
    jobs = sem_jobs(quick)
    if ctx.opts.get('semonly') == '0': jobs = []
    execs = iters = 0
    nout = 0
    capped = False
    samples = []
    for key, st in runner.pmap_unordered(sem_job, jobs):
        execs += st['execs']; iters += st['iters']; nout += st['outcomes']; capped |= st['capped']
        if st['sample'] and len(samples) < 2 and len(key[0]) >= 2 and key[3]:
            samples.append(dict(programs=key[0], tokens=key[1], recursive=key[2], foreign=key[3], events=st['sample']))
        for k, what, rep in st['viol']:
            ctx.violation(k, 'programs=%s tokens=%d recursive=%s foreign=%d: %s' % (key + (what,)), rep)
    ctx.log('semaphore harness: %d configurations, %d executions, %d loop iterations, %d distinct event orders, capped=%s' % (
        len(jobs), execs, iters, nout, capped))
    bexecs = biters = 0
    bsamples = []
    if ctx.opts.get('builder', '1') == '1':
        from . import c06_builder
        bexecs, biters, bcap, bsamples, bout = c06_builder.run_all(ctx, quick)
        capped |= bcap
        nout += bout
    return ctx.finish(dict(
        states=iters + biters, transitions=iters + biters, traces_validated_against_impl=execs + bexecs,
        evaluations=execs + bexecs, distinct_nontrivial=nout,
        rule='one evaluation = one complete execution of the real code on a virtual asyncio loop under one sequence of external events '
             '(completion order of running steps, FIFO readability, foreign token traffic); all sequences within the deviation bound are '
             'enumerated; distinct_nontrivial = distinct observed event orders',
        exhaustive=not capped, samples=samples + bsamples,
        bounds=dict(semaphore=dict(tasks='<=%d' % (3 if quick else 4), tokens='0..%d' % (2 if quick else 3), programs=['AWR', 'AWYWR', 'WAWR'] + ([] if quick else ['AWRAWR']),
                                   deviation_bound=1 if quick else 2)),
        semaphore_executions=execs, builder_executions=bexecs),
        assumptions=['asyncio runs ready handles in FIFO order (true for the real loop); the only nondeterminism is which external events have '
                     'happened at an iteration boundary', 'step scripts are replaced by harness futures (durations = choices)'])


def replay(ctx, body):
    r = body['replay']
    if r.get('part') == 'sem':
        w = SemWorld(r['programs'], r['ntokens'], r['recursive'], r['thief'])
        x = e3.Exec(w, r['choices']).run()
        print('events:', x.log)
        print('problems:', w.problems, x.problems)
    else:
        from . import c06_builder
        c06_builder.replay(r)
    return 0
