"""C11 - directory hashes are content exact and cache transparent.

Every sequence of file-system operations up to a depth from a 38-operation alphabet is applied
to a real directory; after *every* operation the real hashDirectory() is computed with the
persistent cache.bin (warm from the history, same inodes) and without it.
Oracles: cached == uncached in every state; over all visited trees, hash equal <=> independent
canonical serialisation equal (names, types, permission bits, contents, link targets; SCM
metadata directories ignored).
The harness owns the assumption "every modification changes the stat data": a logical clock
sets a strictly increasing mtime after every modification, and for the operations that restore
the mtime it waits until the kernel's ctime has really advanced.
"""
import os, sys, stat, shutil, itertools, hashlib, time
from .. import runner

LEVEL = 'model_checking'
C1, C2, C3 = b'one', b'two', b'three'


class Tree:
    def __init__(self, root):
        self.root = root
        self.clock = 1_500_000_000 * 10**9

    def p(self, name):
        return os.path.join(self.root, name)

    def tick(self, path):
        self.clock += 10**9
        try:
            os.utime(path, ns=(self.clock, self.clock), follow_symlinks=False)
        except (NotImplementedError, OSError):
            pass

    def rm(self, name):
        p = self.p(name)
        if os.path.islink(p) or os.path.isfile(p): os.unlink(p)
        elif os.path.isdir(p): shutil.rmtree(p)
        else: return False
        return True

    # ---- operations; each returns False if it is a no-op in this state
    def wf(self, name, content):
        p = self.p(name)
        d = os.path.dirname(p)
        if not os.path.isdir(d) or os.path.islink(d):
            self.rm(os.path.relpath(d, self.root)); os.makedirs(d); self.tick(d)
        if os.path.islink(p) or os.path.isdir(p): self.rm(name)
        if os.path.isfile(p) and open(p, 'rb').read() == content: return False
        with open(p, 'wb') as f: f.write(content)      # in place: same inode if it existed
        self.tick(p)
        return True

    def chmod(self, name, a, b):
        p = self.p(name)
        if os.path.islink(p) or not os.path.exists(p): return False
        m = stat.S_IMODE(os.lstat(p).st_mode)
        os.chmod(p, b if m == a else a)
        self.tick(p)
        return True

    def delete(self, name):
        return self.rm(name)

    def mv(self, a, b):
        if not os.path.lexists(self.p(a)): return False
        self.rm(b)
        os.rename(self.p(a), self.p(b))
        self.tick(self.p(b))
        return True

    def ln(self, name, target):
        p = self.p(name)
        if os.path.islink(p) and os.readlink(p) == target: return False
        self.rm(name)
        os.symlink(target, p)
        self.tick(p)
        return True

    def mkdir(self, name):
        p = self.p(name)
        if os.path.isdir(p) and not os.path.islink(p): return False
        self.rm(name)
        os.mkdir(p); self.tick(p)
        return True

    def touch(self, name):
        p = self.p(name)
        if not os.path.lexists(p): return False
        self.tick(p)
        return True

    def ctime_advanced(self, p, before):
        """make sure the kernel's ctime differs from `before` (coarse clock!)"""
        for _ in range(2000):
            st = os.lstat(p)
            if st.st_ctime_ns != before: return
            time.sleep(0.0005)
            os.utime(p, ns=(st.st_atime_ns, st.st_mtime_ns), follow_symlinks=False)
        raise RuntimeError('ctime does not advance')

    def rewrite_keep_mtime(self, name):
        """same size, other content, mtime restored (cp -p / rsync --inplace -t): only ctime tells"""
        p = self.p(name)
        if os.path.islink(p) or not os.path.isfile(p): return False
        st = os.lstat(p)
        old = open(p, 'rb').read()
        new = bytes((c ^ 1) for c in old)
        if not old: return False
        with open(p, 'r+b') as f: f.write(new)
        os.utime(p, ns=(st.st_atime_ns, st.st_mtime_ns))
        self.ctime_advanced(p, st.st_ctime_ns)
        return True

    def replace_keep_mtime(self, name):
        """new inode via rename, same size, mtime copied"""
        p = self.p(name)
        if os.path.islink(p) or not os.path.isfile(p): return False
        st = os.lstat(p)
        old = open(p, 'rb').read()
        if not old: return False
        tmp = p + '.tmp~'
        with open(tmp, 'wb') as f: f.write(bytes((c ^ 2) for c in old))
        os.chmod(tmp, stat.S_IMODE(st.st_mode))
        os.utime(tmp, ns=(st.st_atime_ns, st.st_mtime_ns))
        os.rename(tmp, p)
        return True


def alphabet():
    ops = []
    for n in ('a', 'a.b', 'a0', 'b'):
        for cn, c in (('1', C1), ('2', C2), ('3', C3)):
            ops.append(('w %s %s' % (n, cn), lambda t, n=n, c=c: t.wf(n, c)))
    for n in ('a/x', 'a/y'):
        for cn, c in (('1', C1), ('2', C2)):
            ops.append(('w %s %s' % (n, cn), lambda t, n=n, c=c: t.wf(n, c)))
    ops.append(('chmod a', lambda t: t.chmod('a', 0o644, 0o755)))
    ops.append(('chmod b', lambda t: t.chmod('b', 0o644, 0o755)))
    ops.append(('chmod a/x', lambda t: t.chmod('a/x', 0o644, 0o600)))
    for n in ('a', 'a.b', 'b'):
        ops.append(('rm ' + n, lambda t, n=n: t.delete(n)))
    for a, b in (('a', 'b'), ('b', 'a'), ('a.b', 'a0')):
        ops.append(('mv %s %s' % (a, b), lambda t, a=a, b=b: t.mv(a, b)))
    for n, tg in (('a', 'x1'), ('a', 'x2'), ('b', 'x1'), ('a', './x1'), ('a', 'x1/')):      # ./x1 and x1/ differ from x1 only in spelling: other link targets
        ops.append(('ln %s %s' % (n, tg), lambda t, n=n, tg=tg: t.ln(n, tg)))
    ops.append(('mkdir a', lambda t: t.mkdir('a')))
    ops.append(('w .git/HEAD 1', lambda t: t.wf('.git/HEAD', C1)))
    ops.append(('w .git/HEAD 2', lambda t: t.wf('.git/HEAD', C2)))
    ops.append(('w .git(file) 1', lambda t: t.wf('.git', C1)))
    ops.append(('w a/.svn(file) 2', lambda t: t.wf('a/.svn', C2)))
    ops.append(('touch a', lambda t: t.touch('a')))
    ops.append(('rewrite-keep-mtime a', lambda t: t.rewrite_keep_mtime('a')))
    ops.append(('rewrite-keep-mtime a/x', lambda t: t.rewrite_keep_mtime('a/x')))
    ops.append(('replace-keep-mtime b', lambda t: t.replace_keep_mtime('b')))
    return ops


SMALL = ['w a 1', 'w a 2', 'w a.b 1', 'w a/x 1', 'w a0 3', 'rm a', 'mv a b', 'ln a x1', 'chmod a', 'rewrite-keep-mtime a',
         'w b 1', 'mkdir a']

IGN = ('.git', '.svn', '.portage-cache')


def canon(root):
    """independent canonical serialisation"""
    out = []

    def walk(d, rel):
        for n in sorted(os.listdir(d)):
            p = os.path.join(d, n)
            st = os.lstat(p)
            r = rel + n
            if stat.S_ISDIR(st.st_mode):
                if n in IGN: continue
                out.append(('d', r, stat.S_IMODE(st.st_mode)))
                walk(p, r + '/')
            elif stat.S_ISLNK(st.st_mode):
                out.append(('l', r, stat.S_IMODE(st.st_mode), os.readlink(p)))
            else:
                out.append(('f', r, stat.S_IMODE(st.st_mode), open(p, 'rb').read()))
    walk(root, '')
    return tuple(out)


def worker(job):
    depth, k, K, names = job
    from bob.utils import hashDirectory
    ops = dict(alphabet())
    names = names or list(ops)
    base = os.path.join(runner.scratch(), 'c11-%d' % k)
    h2c, c2h = {}, {}
    viol = []
    nseq = nhash = nontriv = 0
    i = -1
    for L in range(1, depth + 1):
        for seq in itertools.product(names, repeat=L):
            i += 1
            if (i // 64) % K != k: continue
            # only sequences whose last op is new work (prefixes were checked as shorter sequences):
            # replay the prefix without hashing the uncached variant? No - the cached hash after
            # each prefix step is what warms the index, so every step is hashed with the index.
            shutil.rmtree(base, ignore_errors=True)
            root = os.path.join(base, 'ws')
            os.makedirs(root)
            cache = os.path.join(base, 'cache.bin')
            t = Tree(root)
            nseq += 1
            effective = True
            for j, name in enumerate(seq):
                changed = ops[name](t)
                if not changed and j == L - 1:
                    effective = False
                hc = hashDirectory(root, cache)
                nhash += 1
                if j < L - 1: continue
                hu = hashDirectory(root)
                nhash += 1
                if changed: nontriv += 1
                if hc != hu:
                    viol.append(('cached-hash-differs', seq, 'after %r the cached hash %s differs from the uncached %s' % (name, hc.hex()[:12], hu.hex()[:12])))
                c = canon(root)
                o = h2c.get(hu)
                if o is None: h2c[hu] = (c, seq)
                elif o[0] != c:
                    viol.append(('hash-collision', seq, 'trees of %s and %s differ (%s vs %s) but hash equal' % (list(o[1]), list(seq), _diff(o[0], c), '')))
                o = c2h.get(c)
                if o is None: c2h[c] = (hu, seq)
                elif o[0] != hu:
                    viol.append(('hash-unstable', seq, 'equal trees after %s and %s hash differently' % (list(o[1]), list(seq))))
    shutil.rmtree(base, ignore_errors=True)
    return nseq, nhash, nontriv, h2c, c2h, viol[:20]


def _diff(a, b):
    sa, sb = set(a), set(b)
    return sorted(x[:3] for x in (sa ^ sb))[:3]


def run(ctx):
    quick = ctx.tier == 'quick'
    depth = int(ctx.opts.get('depth', 3 if quick else 4))
    sdepth = int(ctx.opts.get('sdepth', 4 if quick else 5))
    K = 64
    jobs = [(depth, k, K, None) for k in range(K)] + [(sdepth, k, K, SMALL) for k in range(K)]
    H2C, C2H = {}, {}
    nseq = nhash = nontriv = 0
    for a, b, c, h2c, c2h, viol in runner.pmap_unordered(worker, jobs):
        nseq += a; nhash += b; nontriv += c
        for key, seq, what in viol:
            ctx.violation(key + ':' + seq[-1].split()[0], 'ops=%s: %s' % (list(seq), what), dict(ops=list(seq)))
        for h, (cn, seq) in h2c.items():
            o = H2C.get(h)
            if o is None: H2C[h] = (cn, seq)
            elif o[0] != cn:
                ctx.violation('hash-collision', 'trees after %s and %s differ in %s but hash equal' % (list(o[1]), list(seq), _diff(o[0], cn)),
                              dict(ops=list(seq), ops2=list(o[1])))
        for cn, (h, seq) in c2h.items():
            o = C2H.get(cn)
            if o is None: C2H[cn] = (h, seq)
            elif o[0] != h:
                ctx.violation('hash-unstable', 'equal trees after %s and %s hash differently' % (list(o[1]), list(seq)), dict(ops=list(seq), ops2=list(o[1])))
    nal = len(alphabet())
    ctx.log('%d operation sequences (all of length<=%d over %d ops, all of length<=%d over %d ops), %d hash computations, %d distinct trees, %d distinct hashes' % (
        nseq, depth, nal, sdepth, len(SMALL), nhash, len(C2H), len(H2C)))
    return ctx.finish(dict(
        states=len(C2H), transitions=nseq, traces_validated_against_impl=nseq, evaluations=nhash, distinct_nontrivial=nontriv,
        rule='one sequence = operations applied to a fresh real directory with hashDirectory(path, cache.bin) after every operation (warm index, '
             'same inodes) and hashDirectory(path) + independent serialisation after the last; states = distinct trees reached; '
             'non-trivial = sequences whose last operation changed the tree or its stat data',
        exhaustive=True,
        samples=[dict(ops=['w a 1', 'rewrite-keep-mtime a', 'mv a b']), dict(ops=['w a/x 1', 'ln a x1', 'w a.b 2'])],
        bounds=dict(depth_full_alphabet=depth, alphabet=[n for n, _ in alphabet()], depth_small_alphabet=sdepth, small_alphabet=SMALL),
        sequences=nseq, distinct_trees=len(C2H), distinct_hashes=len(H2C)),
        assumptions=['every modification changes the stat tuple (the harness enforces it: logical mtime clock, waits for the coarse ctime clock)',
                     'files named BaseDirList.txt (ignored by Bob by design) are outside the alphabet',
                     'tmpfs inode/ctime behaviour stands for a real file system'])


def replay(ctx, body):
    from bob.utils import hashDirectory
    ops = dict(alphabet())
    base = os.path.join(runner.scratch(), 'c11-replay')
    root = os.path.join(base, 'ws'); os.makedirs(root)
    cache = os.path.join(base, 'cache.bin')
    t = Tree(root)
    for name in body['replay']['ops']:
        ch = ops[name](t)
        print('%-24s changed=%s cached=%s uncached=%s' % (name, ch, hashDirectory(root, cache).hex()[:16], hashDirectory(root).hex()[:16]))
    print(canon(root))
    return 0
