"""C18 - package path queries return their declarative meaning.

For every dependency graph of a generated family (DAGs over <=4 packages with shared nodes,
direct and provided (indirect) edges, one or two roots, two name orders) a real project is
written and parsed; every query of a generated family (<=3 steps over all 7 axes x 4 name tests,
predicates of depth <=2 with relative/absolute paths, string comparison, ! && ||, abbreviations,
aliases) runs through the real PackageSet.queryPackagePath in the three empty-result modes and is
compared with a forward, step-by-step reference evaluator working on the query *structure*:
  * the set of returned packages equals the reference set,
  * every returned package's stack is a real path of the graph that passes through matches of
    the intermediate steps in order,
  * empty results raise / do not raise as the selected mode prescribes.
"""
import os, sys, shutil, itertools, io, contextlib
from .. import runner

LEVEL = 'model_checking'
NAMES = ['a', 'b', 'ab', 'c']
AXES = ['child', 'descendant', 'descendant-or-self', 'direct-child', 'direct-descendant', 'direct-descendant-or-self', 'self']
TESTS = ['a', 'b', '*', 'a*']
LIC = {'a': 'x', 'b': 'y', 'ab': 'x', 'c': ''}


# ---------------------------------------------------------------------------- graphs
def graphs(quick):
    """yield (id, order, edges {i: [j]}, forward set, roots)"""
    gid = 0
    for n in (2, 3, 4):
        pairs = [(i, j) for i in range(n) for j in range(i + 1, n)]
        for mask in range(1 << len(pairs)):
            edges = {i: [] for i in range(n)}
            for b, (i, j) in enumerate(pairs):
                if mask >> b & 1: edges[i].append(j)
            # every node reachable from node 0 or a second root
            for fw in range(1 << n):
                forward = {i for i in range(n) if fw >> i & 1 and edges[i]}
                if any((fw >> i & 1) and not edges[i] for i in range(n)): continue
                for roots in ([0], [0, 1]):
                    if len(roots) > 1 and n < 3: continue
                    for order in (0, 1):
                        gid += 1
                        yield gid, n, order, edges, forward, roots


def write_project(d, n, order, edges, forward, roots):
    names = NAMES[:n] if order == 0 else list(reversed(NAMES[:n]))
    os.makedirs(os.path.join(d, 'recipes'))
    with open(os.path.join(d, 'config.yaml'), 'w') as f:
        f.write('bobMinimumVersion: "0.25"\n')
    with open(os.path.join(d, 'default.yaml'), 'w') as f:
        f.write('alias:\n    al: "%s/%s"\n    al2: "//%s"\n' % (names[0], names[1], names[-1]))
    for i in range(n):
        lines = []
        if i in roots: lines.append('root: True')
        if edges[i]:
            lines.append('depends:\n' + '\n'.join('    - %s' % names[j] for j in edges[i]))
        if i in forward:
            lines.append('provideDeps: ["*"]')
        lines.append('metaEnvironment:\n    LIC: "%s"' % LIC[names[i]])
        lines.append('buildScript: "true"\npackageScript: "true"')
        with open(os.path.join(d, 'recipes', names[i] + '.yaml'), 'w') as f:
            f.write('\n'.join(lines) + '\n')
    return names


# ---------------------------------------------------------------------------- queries (structure + text)
def preds():
    P = [None]
    atoms = [('path', False, [('child', 'b', None)]), ('path', False, [('descendant', '*', None)]), ('path', False, [('child', '*', None), ('child', 'c', None)]),
             ('path', True, [('child', 'a', None), ('child', 'b', None)]), ('path', True, [('descendant-or-self', '*', None), ('child', 'c', None)]),
             ('cmp', '==', 'x'), ('cmp', '!=', 'x'), ('cmp', '<', 'y'), ('str',),
             ('path', True, [('child', 'b', None), ('child', 'ab', None)]), ('path', True, [('child', 'ab', None), ('child', 'c', None)]),
             ('path', True, [('child', 'b', None)]), ('path', False, [('child', 'b', None), ('child', 'ab', None)]),
             ('path', True, [('child', '*', None), ('child', 'c', None)])]
    P += atoms
    P += [('not', a) for a in atoms[:6] + atoms[9:11]]
    P += [('or', atoms[0], atoms[9]), ('and', ('not', atoms[10]), atoms[1])]
    P += [('and', atoms[0], atoms[5]), ('or', atoms[3], atoms[5]), ('and', ('not', atoms[1]), atoms[6]), ('or', atoms[2], ('not', atoms[5])),
          ('path', False, [('child', '*', ('cmp', '==', 'x'))])]
    # direct-* axes inside predicates (evaluated backwards over the parent links of the graph)
    dc, dd, dds = ('path', False, [('direct-child', 'b', None)]), ('path', False, [('direct-descendant', 'c', None)]), ('path', False, [('direct-descendant-or-self', 'ab', None)])
    extra = [dc, dd, dds, ('path', False, [('direct-child', '*', None), ('child', 'c', None)]), ('and', ('not', dc), atoms[0]), ('and', ('not', dd), ('path', False, [('descendant', 'c', None)]))]
    P[-1:-1] = extra        # keep the last element last (the quick tier picks P[-1])
    return P


def rstep(s):
    axis, test, pred = s
    t = test if axis == 'child' else axis + '@' + test
    if pred is not None: t += '[' + rpred(pred) + ']'
    return t


def rpath(absolute, steps):
    return ('/' if absolute else '') + '/'.join(rstep(s) for s in steps)


def rpred(p):
    k = p[0]
    if k == 'path': return rpath(p[1], p[2])
    if k == 'cmp': return '"${LIC}" %s "%s"' % (p[1], p[2])
    if k == 'str': return '"${LIC}"'
    if k == 'not': return '!(%s)' % rpred(p[1])
    if k == 'and': return '(%s) && (%s)' % (rpred(p[1]), rpred(p[2]))
    if k == 'or': return '(%s) || (%s)' % (rpred(p[1]), rpred(p[2]))


def queries(quick):
    """yield (text, absolute, steps) - steps are (axis, test, pred)"""
    P = preds()
    heads = [(a, t) for a in AXES for t in TESTS]
    seen = set()

    def out(absolute, steps, text=None):
        text = text or rpath(absolute, steps)
        if text not in seen:
            seen.add(text)
            return [(text, absolute, steps)]
        return []
    res = []
    for a, t in heads:
        for p in P:
            res += out(False, [(a, t, p)])
    for (a1, t1) in heads:
        for (a2, t2) in heads:
            res += out(bool((len(res)) & 1), [(a1, t1, None), (a2, t2, None)])
    firsts = [('child', '*'), ('descendant', 'a*'), ('child', 'a'), ('descendant-or-self', '*'), ('direct-child', '*'), ('child', 'b')]
    for (a1, t1) in firsts:
        for (a2, t2) in heads:
            for p in (P[1], P[4], P[6], P[-1]) if quick else P[1:]:
                res += out(False, [(a1, t1, p), (a2, t2, None)])
                res += out(False, [(a1, t1, None), (a2, t2, p)])
    for a1 in AXES:
        for a2 in AXES:
            for a3 in AXES:
                res += out(False, [(a1, '*', None), (a2, 'a*', None), (a3, '*', None)])
    for t1, t2, t3 in itertools.product(['a', 'b', 'ab', 'c', '*'], repeat=3):
        res += out(True, [('child', t1, None), ('child', t2, None), ('child', t3, None)])
    # abbreviations (same structure, other text) and aliases
    res.append(('//b', True, [('descendant-or-self', '*', None), ('child', 'b', None)]))
    res.append(('//a*/c', True, [('descendant-or-self', '*', None), ('child', 'a*', None), ('child', 'c', None)]))
    res.append(('a//c', False, [('child', 'a', None), ('descendant-or-self', '*', None), ('child', 'c', None)]))
    res.append(('.', False, [('self', '*', None)]))
    res.append(('.//b', False, [('self', '*', None), ('descendant-or-self', '*', None), ('child', 'b', None)]))
    res.append(('/', True, []))
    res.append(('a/', False, [('child', 'a', None)]))
    res.append(('ALIAS:al', False, None))
    res.append(('ALIAS:al/c', False, None))
    res.append(('ALIAS:al2', False, None))
    res.append(('ALIAS:/al', False, None))
    res.append(('ALIAS:b/al', False, None))
    return res


# ---------------------------------------------------------------------------- reference
class Ref:
    def __init__(self, root_pkg, names):
        """graph from the live package tree (ground truth for the *structure*; the property is about queries)"""
        self.children = {}      # key -> [(name, key, direct)]
        self.name = {}
        self.lic = {}
        self.root = self.add(root_pkg)

    def add(self, pkg):
        key = pkg._getId()
        if key in self.children: return key
        self.name[key] = pkg.getName()
        self.lic[key] = LIC.get(pkg.getName(), '')
        ch = []
        self.children[key] = ch
        seen = set()
        for s in pkg.getDirectDepSteps():
            p = s.getPackage()
            ch.append((p.getName(), self.add(p), True)); seen.add(p.getName())
        for s in pkg.getIndirectDepSteps():
            p = s.getPackage()
            if p.getName() in seen: continue
            seen.add(p.getName())
            ch.append((p.getName(), self.add(p), False))
        return key

    def axis(self, n, axis):
        direct = axis.startswith('direct-')
        base = axis[7:] if direct else axis
        if base == 'self': return {n}
        kids = lambda x: {k for (_, k, d) in self.children[x] if d or not direct}
        if base == 'child': return kids(n)
        res = set()
        todo = [n]
        while todo:
            x = todo.pop()
            for k in kids(x):
                if k not in res:
                    res.add(k); todo.append(k)
        if base == 'descendant-or-self': res = res | {n}
        return res

    def test(self, n, t):
        nm = self.name[n]
        if t == '*': return True
        if t.endswith('*'): return nm.startswith(t[:-1])
        return nm == t

    def step(self, ctx, s):
        axis, test, pred = s
        out = set()
        for n in ctx:
            for m in self.axis(n, axis):
                if self.test(m, test) and (pred is None or self.pred(pred, m)):
                    out.add(m)
        return out

    def path(self, absolute, steps, ctx):
        cur = {self.root} if absolute else set(ctx)
        for s in steps:
            cur = self.step(cur, s)
        return cur

    def pred(self, p, n):
        k = p[0]
        if k == 'path': return bool(self.path(p[1], p[2], {n}))
        lic = self.lic[n]
        if k == 'cmp':
            return {'==': lic == p[2], '!=': lic != p[2], '<': lic < p[2]}[p[1]]
        if k == 'str': return lic.lower() not in ('', '0', 'false')
        if k == 'not': return not self.pred(p[1], n)
        if k == 'and': return self.pred(p[1], n) and self.pred(p[2], n)
        if k == 'or': return self.pred(p[1], n) or self.pred(p[2], n)

    def first_empty(self, absolute, steps):
        cur = {self.root}
        for i, s in enumerate(steps):
            cur = self.step(cur, s)
            if not cur: return i
        return None

    def path_ok(self, stack_keys, steps):
        """is there an assignment of increasing positions on the reported path (0 = virtual root) such that
        position i is produced from position i-1 by step i (axis relation along the path, name test, predicate)?"""
        L = len(stack_keys) - 1
        cur = {0}
        for (axis, test, pred) in steps:
            direct = axis.startswith('direct-')
            base = axis[7:] if direct else axis
            nxt = set()
            for p in cur:
                cand = []
                if base == 'self': cand = [p]
                elif base == 'child': cand = [p + 1]
                elif base == 'descendant': cand = list(range(p + 1, L + 1))
                elif base == 'descendant-or-self': cand = list(range(p, L + 1))
                for q in cand:
                    if q > L: continue
                    if direct and not all(self.edge_direct(stack_keys[r], stack_keys[r + 1]) for r in range(p, q)): continue
                    m = stack_keys[q]
                    if self.test(m, test) and (pred is None or self.pred(pred, m)): nxt.add(q)
            cur = nxt
        return L in cur

    def edge_direct(self, a, b):
        return any(k == b and d for (_, k, d) in self.children[a])

    def resolve(self, stack):
        """names -> keys along real edges from the virtual root, or None"""
        keys = [self.root]
        for nm in stack:
            nxt = [k for (n_, k, d) in self.children[keys[-1]] if n_ == nm]
            if not nxt: return None
            keys.append(nxt[0])
        return keys


def expected_mode(ref, absolute, steps, mode):
    """('ok', set) or ('error',) or None (documentation silent)"""
    res = ref.path(True, steps, None)
    res = res - {ref.root}
    i = ref.first_empty(True, steps)
    if i is None or mode == 'nullset':
        return ('ok', res)
    if mode == 'nullfail':
        return ('error',)
    pre = [st for st in steps[:i + 1] if not (st[0] == 'self' and st[1] == '*' and st[2] is None)]
    if any(('*' in t) or p is not None for (_, t, p) in pre):
        return ('ok', res)
    if all(a in ('child', 'self', 'direct-child') for (a, _, _) in pre):
        return ('error',)
    return None


# ---------------------------------------------------------------------------- worker
class CachedGrammar:
    """The real grammar, each distinct query text parsed once per process (parsing a predicate costs up to a
    second in pyparsing; the AST is stateless and reaches the graph through its PackageSet)."""

    def __init__(self, real):
        self.real, self.cache = real, {}

    def parse_string(self, text, parse_all=False):
        r = self.cache.get(text)
        if r is None:
            try:
                r = ('ok', self.real.parse_string(text, parse_all))
            except Exception as e:
                r = ('exc', e)
            self.cache[text] = r
        if r[0] == 'exc': raise r[1]
        return r[1]


def slice_worker(job):
    k, K, glist, quick = job
    from bob.input import RecipeSet
    from bob.errors import BobError
    import bob.builder as bb
    Q = [q for i, q in enumerate(queries(quick)) if i % K == k]
    base = os.path.join(runner.scratch(), 'c18-%d' % k)
    host = None
    nq = nt = 0
    viol = {}
    nviol = 0
    pathinst = {}       # instance (graph structure | query) -> (key, desc, text, mode, what): every input with a wrong result path
    outcomes = set()
    buf = io.StringIO()
    with contextlib.redirect_stdout(buf), contextlib.redirect_stderr(buf):
        for (gid, n, order, edges, forward, roots) in glist:
            d = os.path.join(base, 'g%d' % gid)
            shutil.rmtree(base, ignore_errors=True)
            os.makedirs(d)
            names = write_project(d, n, order, edges, forward, roots)
            os.chdir(d)
            gsig = 'names=%s edges=%s forward=%s roots=%s' % (names, {names[i]: [names[j] for j in e] for i, e in edges.items() if e},
                                                              [names[i] for i in forward], [names[i] for i in roots])
            desc = 'graph %d: names=%s edges=%s forward=%s roots=%s' % (gid, names, {names[i]: [names[j] for j in e] for i, e in edges.items() if e},
                                                                      [names[i] for i in forward], [names[i] for i in roots])
            recipes = RecipeSet()
            recipes.defineHook('releaseNameFormatter', bb.LocalBuilder.releaseNameFormatter)
            recipes.defineHook('developNameFormatter', bb.LocalBuilder.developNameFormatter)
            recipes.defineHook('developNamePersister', None)
            recipes.parse({})
            packages = recipes.generatePackages(lambda s, m: 'unused', False, False)
            if host is None:
                host = packages
                host._PackageSet__pathGrammer = CachedGrammar(host._PackageSet__pathGrammer)
            else:
                # point the long-lived PackageSet (whose parsed queries we keep) at the new project
                host.close()
                host._PackageSet__root = None
                host._PackageSet__generator = packages._PackageSet__generator
                host._PackageSet__cacheKey = packages._PackageSet__cacheKey
                host._PackageSet__aliases = packages._PackageSet__aliases
            ref = Ref(host.getRootPackage(), names)
            al = {'al': [('child', names[0], None), ('child', names[1], None)], 'al2': [('descendant-or-self', '*', None), ('child', names[-1], None)]}
            for round_ in (0, 1):       # 1 = warm .bob-tree.sqlite3 (graph re-loaded from the persisted adjacency cache)
                if round_ == 1:
                    host.close()
                for mode in ('nullset', 'nullglob', 'nullfail'):
                    if round_ == 1 and mode != 'nullset': continue
                    host._PackageSet__emptyMode = mode
                    for text, absolute, steps in Q:
                        if text.startswith('ALIAS:'):
                            text = text[6:]
                            first, sep, tail = text.partition('/')
                            if first in al:
                                steps = al[first] + ([('child', t, None) for t in tail.split('/')] if tail else [])
                            else:
                                steps = [('child', t, None) for t in text.split('/') if t]
                        nq += 1
                        exp = expected_mode(ref, absolute, steps, mode)
                        try:
                            got = list(host.queryPackagePath(text))
                            oc = ('ok', got)
                        except BobError as e:
                            oc = ('error', str(e)[:60])
                        except Exception as e:
                            oc = ('internal', type(e).__name__ + ': ' + str(e)[:80])
                        outcomes.add((oc[0], len(oc[1]) if oc[0] == 'ok' else 0))
                        vs = []
                        if oc[0] == 'internal':
                            vs.append(('query-raises:' + oc[1].split(':')[0], oc[1]))
                        elif exp is not None:
                            nt += 1
                            if exp[0] == 'error':
                                if oc[0] != 'error':
                                    vs.append(('mode-%s-no-error' % mode, 'empty intermediate result must be an error in mode %s, got %d packages' % (mode, len(oc[1]))))
                            elif oc[0] == 'error':
                                vs.append(('mode-%s-spurious-error' % mode, 'query failed with "%s", reference expects %d packages' % (oc[1], len(exp[1]))))
                            else:
                                gotkeys = set()
                                for p in got:
                                    stack = p.getStack()
                                    keys = ref.resolve(stack)
                                    if keys is None:
                                        vs.append(('result-path-not-in-graph', 'reported path %s is not a path of the package graph' % '/'.join(stack)))
                                        continue
                                    if keys[-1] != p._getId():
                                        vs.append(('result-path-leads-elsewhere', 'reported path %s does not lead to the returned package' % '/'.join(stack)))
                                    gotkeys.add(p._getId())
                                    if keys[-1] in exp[1] and not ref.path_ok(keys, steps):
                                        # two classes: the reported path only uses nodes that lie on some matching path (but combines
                                        # them with an edge no matching path takes), or it leaves the matching paths altogether
                                        what_ = 'package %s reported with path %s which does not pass through matches of the steps of the query' % (p.getName(), '/'.join(stack))
                                        pathinst.setdefault(gsig + ' | ' + text, ('result-path-misses-intermediate-step', desc, text, mode, what_))
                                if gotkeys != exp[1]:
                                    kind = 'missing' if gotkeys < exp[1] else ('extra' if gotkeys > exp[1] else 'other')
                                    vs.append(('wrong-result-set:%s%s' % (kind, ':warm-cache-only' if round_ and False else ''), 'returned %s, reference %s' % (
                                        sorted(ref.name[k_] for k_ in gotkeys if k_ in ref.name), sorted(ref.name[k_] for k_ in exp[1]))))
                        for key, what in vs:
                            nviol += 1
                            if key not in viol: viol[key] = (key, desc, text, mode, what)
    if host is not None: host.close()
    RecipeSet.setQueryMode(None)
    shutil.rmtree(base, ignore_errors=True)
    return k, nq, nt, len(outcomes), list(viol.values()), nviol + len(pathinst), len(Q), pathinst


def select_graphs(quick, seed=0):
    G = list(graphs(quick))
    sel = []
    for g in G:
        gid, n, order, edges, forward, roots = g
        ne = sum(len(e) for e in edges.values())
        if n <= 3: sel.append(g)
        elif quick:
            if ne in (3, 4, 5, 6) and len(forward) <= 1 and order == 0 and gid % 5 == 0: sel.append(g)
        else:
            if ne >= 3 and len(forward) <= 2: sel.append(g)
    return G, sel


def run(ctx):
    quick = ctx.tier == 'quick'
    G, sel = select_graphs(quick, ctx.seed)
    lim = int(ctx.opts.get('graphs', 0))
    if lim: sel = sel[:lim]
    K = 48
    nQ = len(queries(quick))
    jobs = [(k, K, sel, quick) for k in range(K)]
    ctx.log('%d of %d graphs selected, %d queries x 3 modes (+ warm adjacency cache round)' % (len(sel), len(G), nQ))
    nq = nt = 0
    total_viol = 0
    allinst = {}
    for k, a, b, no, viols, nv, lq, pathinst in runner.pmap_unordered(slice_worker, jobs, chunksize=1):
        nq += a; nt += b; total_viol += nv
        for key, d, text, mode, what in viols:
            ctx.violation(key, '%s; query %r mode %s: %s' % (d, text, mode, what), dict(graph=d, query=text, mode=mode))
        allinst.update(pathinst)
    # wrong result paths: every failing (graph, query) input is reported; the open finding covers exactly the inputs listed in its file
    for inst in sorted(allinst):
        key, d, text, mode, what = allinst[inst]
        ctx.violation(key, '%s; query %r mode %s: %s' % (d, text, mode, what), dict(graph=d, query=text, mode=mode), instance=inst)
    if ctx.opts.get('dumpinstances'):
        with open(ctx.opts['dumpinstances'], 'w') as f:
            f.write('\n'.join(sorted(allinst)) + '\n')
    ctx.log('%d inputs (graph, query) with a result path that does not pass through the query steps' % len(allinst))
    ctx.log('%d query evaluations on the real PackageSet, %d with a defined expectation, %d violations in total' % (nq, nt, total_viol))
    samples = [dict(graph='names=[a,b,ab] edges={a:[b], b:[ab]} roots=[a]', query='descendant@a*[!(b)]/child@*', modes=['nullset', 'nullglob', 'nullfail'])]
    return ctx.finish(dict(
        states=len(sel), transitions=nq, traces_validated_against_impl=nq, evaluations=nq, distinct_nontrivial=nt,
        rule='states = generated projects (package graphs); one evaluation = one (graph, query, mode) run through the real PackageSet.queryPackagePath '
             '(alias substitution, real grammar - each distinct text parsed once per process -, evalForward, result walk), cold and (mode nullset) with the graph '
             're-loaded from .bob-tree.sqlite3; non-trivial = evaluations where the reference defines the expected outcome',
        exhaustive=True, samples=samples,
        bounds=dict(graph_family='all DAGs over 2..4 packages (edges i<j), forwarding flag per package, 1-2 roots, 2 name orders: %d graphs' % len(G),
                    graphs_selected=len(sel), queries=nQ, axes=AXES, tests=TESTS, predicates=len(preds()), modes=3)),
        assumptions=['the package graph structure (children, direct/indirect) is taken from the live Package objects; the property is about queries over it',
                     'nullglob with a descendant axis and exact name before the first empty step is not defined by the docs: not compared',
                     'a step self@* without predicate is the identity and does not count as a wildcard for the nullglob rule'])


def replay(ctx, body):
    print(body['replay'])
    print('re-run ./check C18 to reproduce (graphs and queries are enumerated deterministically)')
    return 0
