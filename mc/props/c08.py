"""C08 - artifact packing is lossless, corruption is rejected, extraction is confined.

 A. every workspace tree of <=N entries from an alphabet of entry kinds x hostile names is packed
    with the real TarHelper._pack and extracted with the real LocalArchive._downloadPackage:
    directory hash, independent serialisation and audit bytes must be identical.
 B. for a set of genuine artifacts (built and uploaded by the real CLI) every truncation length
    and every single-byte (thorough: single-bit) corruption is placed in the archive and the
    real acceptance path LocalBuilder._downloadPackage runs on a fresh project - twice, with the
    state persisted in between: accepted => content identical to the original and audit
    present; a rejected artifact is not accepted by the second invocation either.
 C. every archive with 1-2 hostile members from a grammar is extracted into a sandbox; a
    sentinel tree around the target (parent, siblings with name-prefix relation, link targets)
    must be byte-identical afterwards.
"""
import os, sys, io, gzip, tarfile, shutil, stat, itertools, hashlib, json, subprocess, asyncio, contextlib
from .. import runner

LEVEL = 'model_checking'
BID = bytes.fromhex('c0' * 20)


# ---------------------------------------------------------------------------- helpers
def canon(root, with_root_mode=False):
    out = []
    inodes = {}

    def walk(d, rel):
        for n in sorted(os.listdir(d)):
            p = os.path.join(d, n)
            st = os.lstat(p)
            r = rel + n
            if stat.S_ISDIR(st.st_mode):
                out.append(('d', r, stat.S_IMODE(st.st_mode)))
                walk(p, r + '/')
            elif stat.S_ISLNK(st.st_mode):
                out.append(('l', r, os.readlink(p)))
            elif stat.S_ISREG(st.st_mode):
                first = inodes.setdefault((st.st_dev, st.st_ino), r) if st.st_nlink > 1 else r
                out.append(('f', r, stat.S_IMODE(st.st_mode), hashlib.sha1(open(p, 'rb').read()).hexdigest(), first))
            else:
                out.append(('?', r, stat.S_IFMT(st.st_mode)))
    walk(root, '')
    return tuple(out)


def snapshot(root, exclude=()):
    """everything below root (types, modes, bytes, link targets) except excluded paths"""
    res = {}
    for dp, dn, fn in os.walk(root):
        dn[:] = [d for d in dn if os.path.join(dp, d) not in exclude]
        for n in dn + fn:
            p = os.path.join(dp, n)
            if p in exclude: continue
            st = os.lstat(p)
            if stat.S_ISLNK(st.st_mode): res[p] = ('l', os.readlink(p))
            elif stat.S_ISDIR(st.st_mode): res[p] = ('d', stat.S_IMODE(st.st_mode))
            elif stat.S_ISREG(st.st_mode): res[p] = ('f', stat.S_IMODE(st.st_mode), open(p, 'rb').read())
            else: res[p] = ('?', st.st_mode)
    return res


_sig = False


def stub_signal():
    global _sig
    if _sig: return
    import bob.archive as ba

    class Sig:
        SIGINT = 2; SIG_DFL = 0; default_int_handler = None
        @staticmethod
        def signal(*a): return None
    ba.signal = Sig
    _sig = True


# ---------------------------------------------------------------------------- A: round trip
NAMES = ['a', 'b c', 'ü', '$x', '-n', 'a\nb', '..x', '\'q"', 'x' * 120, 'content']
KINDS = [('f', b'', 0o644), ('f', b'a', 0o755), ('f', b'B' * 70000, 0o600), ('f', b'a', 0o444), ('d', None, 0o755), ('d', None, 0o700), ('d', None, 0o555), ('d', None, 0o1333),
         ('dc', None, 0o755), ('lr', 'a', None), ('lr', 'content/a', None), ('la', '/etc/passwd', None), ('ld', 'nonexistent/../x', None), ('h', None, None)]


def build_tree(root, entries):
    """entries: list of (kind index, name index). Returns False if not constructible."""
    os.makedirs(root)
    files = []
    for ki, ni in entries:
        kind, data, mode = KINDS[ki]
        name = NAMES[ni]
        p = os.path.join(root, name)
        if os.path.lexists(p): return False
        if kind == 'f':
            with open(p, 'wb') as f: f.write(data)
            os.chmod(p, mode); files.append(p)
        elif kind == 'd':
            os.mkdir(p); os.chmod(p, mode)
        elif kind == 'dc':
            os.mkdir(p)
            with open(os.path.join(p, 'child'), 'wb') as f: f.write(b'child')
            files.append(os.path.join(p, 'child'))
        elif kind in ('lr', 'la', 'ld'):
            os.symlink(data, p)
        elif kind == 'h':
            if not files: return False
            os.link(files[0], p)
    return True


def roundtrip_worker(job):
    k, K, maxn = job
    stub_signal()
    from bob.archive import LocalArchive, ARTIFACT_SUFFIX
    from bob.utils import hashDirectory
    base = os.path.join(runner.scratch(), 'c08a-%d' % k)
    n = nt = 0
    viol = []
    i = -1
    sample = None
    for cnt in range(0, maxn + 1):
        for combo in itertools.product(range(len(KINDS)), repeat=cnt):
            # names: first entry any name, the others take the following names (all distinct) - and one
            # variant where every entry uses a hostile name rotation
            for rot in range(len(NAMES) if cnt else 1):
                i += 1
                if (i // 16) % K != k: continue
                entries = [(ki, (rot + j) % len(NAMES)) for j, ki in enumerate(combo)]
                shutil.rmtree(base, ignore_errors=True)
                src = os.path.join(base, 'src', 'workspace')
                os.makedirs(os.path.dirname(src))
                if not build_tree(src, entries): continue
                audit = os.path.join(base, 'src', 'audit.json.gz')
                with gzip.open(audit, 'wb') as f: f.write(b'{"a": %d}' % i)
                ar = LocalArchive({'backend': 'file', 'path': os.path.join(base, 'archive')})
                n += 1
                try:
                    r = ar._uploadPackage(BID, ARTIFACT_SUFFIX, audit, src)
                    dst = os.path.join(base, 'dst', 'workspace')
                    os.makedirs(os.path.dirname(dst))
                    daudit = os.path.join(base, 'dst', 'audit.json.gz')
                    ok = ar._downloadPackage(BID, ARTIFACT_SUFFIX, daudit, dst, [], dst)
                except Exception as e:
                    viol.append(('roundtrip-raises:' + type(e).__name__, entries, '%s: %s' % (type(e).__name__, str(e)[:100])))
                    continue
                if not ok[0]:
                    viol.append(('roundtrip-not-found', entries, str(ok)))
                    continue
                nt += 1
                hs, hd = hashDirectory(src), hashDirectory(dst)
                cs, cd = canon(src), canon(dst)
                if hs != hd or cs != cd:
                    diff = sorted(set(cs) ^ set(cd))[:2]
                    viol.append(('roundtrip-differs:' + '+'.join(sorted({KINDS[ki][0] for ki, _ in entries})), entries,
                                 'extracted tree differs from the packed one: %s (hash equal: %s)' % (diff, hs == hd)))
                if open(audit, 'rb').read() != open(daudit, 'rb').read():
                    viol.append(('audit-differs', entries, 'audit trail bytes changed'))
                if sample is None and cnt == maxn: sample = [(KINDS[ki][0], NAMES[ni]) for ki, ni in entries]
    shutil.rmtree(base, ignore_errors=True)
    return n, nt, viol[:20], sample


# ---------------------------------------------------------------------------- B: corruption
PROJECTS = {
    'small': "root: True\npackageScript: |\n    echo hello > hello.txt\n    mkdir d && echo x > d/x && ln -s hello.txt l\n",
    'empty': "root: True\npackageScript: |\n    true\n",
    'big': "root: True\npackageScript: |\n    for i in 1 2 3 4 5 6; do echo line$i$i$i$i >> f$i.txt; done\n    head -c 3000 /dev/zero | tr '\\\\0' 'Q' > big\n    chmod 755 f1.txt\n    ln f2.txt hard\n",
}


def make_genuine(name, base):
    """Build and upload with the real CLI; returns (project dir, artifact path, bytes, dist canon)."""
    proj = os.path.join(base, 'proj-' + name)
    os.makedirs(os.path.join(proj, 'recipes'))
    with open(os.path.join(proj, 'config.yaml'), 'w') as f: f.write('bobMinimumVersion: "0.25"\n')
    with open(os.path.join(proj, 'default.yaml'), 'w') as f:
        f.write('archive:\n    backend: file\n    path: "%s"\n' % os.path.join(base, 'archive-' + name))
    with open(os.path.join(proj, 'recipes', 'root.yaml'), 'w') as f: f.write(PROJECTS[name])
    env = dict(os.environ, PYTHONPATH=runner.PYM)
    r = subprocess.run(['/venv/bin/python', os.path.join(runner.REPO, 'bob'), 'build', '--no-sandbox', '--upload', 'root'],
                       cwd=proj, env=env, stdout=subprocess.PIPE, stderr=subprocess.STDOUT, text=True, start_new_session=True)
    assert r.returncode == 0, r.stdout
    arts = []
    for dp, dn, fn in os.walk(os.path.join(base, 'archive-' + name)):
        arts += [os.path.join(dp, f) for f in fn if f.endswith('-1.tgz')]
    assert len(arts) == 1, arts
    dist = None
    for dp, dn, fn in os.walk(os.path.join(proj, 'work')):
        if dp.endswith('dist/1/workspace'): dist = dp
    return proj, arts[0], open(arts[0], 'rb').read(), canon(dist)


def variants(data, bits, stride=1):
    n = len(data)
    for i in range(n): yield 'trunc@%d' % i, data[:i]
    for i in range(0, n, stride):
        if bits:
            for b in range(8): yield 'flip@%d.%d' % (i, b), data[:i] + bytes([data[i] ^ (1 << b)]) + data[i + 1:]
        else:
            yield 'xor@%d' % i, data[:i] + bytes([data[i] ^ 0xff]) + data[i + 1:]
    yield 'append-garbage', data + b'garbage' * 10
    yield 'intact', data
    # a valid artifact whose content does not match its audit trail / has no audit is made by recompress()


def recompress(data, mutate):
    """decode tar, apply mutate(list of (TarInfo, bytes)), re-encode as a well-formed artifact"""
    members = []
    with tarfile.open(fileobj=io.BytesIO(data), mode='r:gz') as tar:
        pax = dict(tar.pax_headers)
        for m in tar:
            members.append((m, tar.extractfile(m).read() if m.isfile() else None))
    members, pax = mutate(members, pax)
    buf = io.BytesIO()
    with gzip.GzipFile(fileobj=buf, mode='wb', mtime=0) as gz:
        with tarfile.open(fileobj=gz, mode='w', format=tarfile.PAX_FORMAT, pax_headers=pax) as tar:
            for m, b in members:
                if b is not None: m.size = len(b)
                tar.addfile(m, io.BytesIO(b) if b is not None else None)
    return buf.getvalue()


def wellformed_mismatches(data):
    def content_changed(ms, pax):
        out = []
        done = False
        for m, b in ms:
            if not done and m.isfile() and m.name.startswith('content/') and b:
                b = bytes([b[0] ^ 1]) + b[1:]; done = True
            out.append((m, b))
        return out, pax
    def extra_file(ms, pax):
        t = tarfile.TarInfo('content/extra'); t.size = 1
        return ms + [(t, b'x')], pax
    def no_audit(ms, pax):
        return [(m, b) for m, b in ms if m.name != 'meta/audit.json.gz'], pax
    def mode_changed(ms, pax):
        out = []
        done = False
        for m, b in ms:
            if not done and m.isfile() and m.name.startswith('content/'):
                m.mode ^= 0o111; done = True
            out.append((m, b))
        return out, pax
    def wrong_pax(ms, pax):
        return ms, {'bob-archive-vsn': '2'}
    def no_pax(ms, pax):
        return ms, {}
    def dropped_file(ms, pax):
        idx = [i for i, (m, b) in enumerate(ms) if m.isfile() and m.name.startswith('content/')]
        return ([x for i, x in enumerate(ms) if not idx or i != idx[-1]], pax)
    for name, fn in (('content-changed', content_changed), ('extra-file', extra_file), ('no-audit', no_audit), ('mode-changed', mode_changed),
                     ('wrong-pax-version', wrong_pax), ('no-pax-version', no_pax), ('dropped-file', dropped_file)):
        try:
            yield 'wellformed:' + name, recompress(data, fn)
        except Exception as e:
            pass


_bld = {}


def accept(proj, art_path, blob):
    """Fresh copy of the project (no work/, no state), tampered artifact in the archive, then the real
    LocalBuilder._downloadPackage twice with the state persisted in between.
    Returns [(outcome, canon or None, audit present)] for the two invocations."""
    stub_signal()
    import bob.builder as bb, bob.state
    from bob.input import RecipeSet
    from bob.archive import getArchiver
    from bob.errors import BobError
    from bob.cmds.build.build import ExecutableStep, LazyIR
    from bob.tty import setVerbosity
    d = proj + '-dl'
    shutil.rmtree(d, ignore_errors=True)
    shutil.copytree(proj, d, ignore=shutil.ignore_patterns('work', '.bob-*', 'dev'))
    with open(art_path, 'wb') as f: f.write(blob)
    os.chdir(d)
    name = os.path.basename(art_path)
    bid = bytes.fromhex(os.path.basename(os.path.dirname(os.path.dirname(art_path))) + os.path.basename(os.path.dirname(art_path)) + name[:-len('-1.tgz')])
    res = []
    setVerbosity(-2)
    for attempt in range(2):
        out = None
        try:
            recipes = RecipeSet()
            recipes.defineHook('releaseNameFormatter', bb.LocalBuilder.releaseNameFormatter)
            recipes.defineHook('developNameFormatter', bb.LocalBuilder.developNameFormatter)
            recipes.defineHook('developNamePersister', None)
            recipes.parse({})
            nf = bb.LocalBuilder.makeRunnable(bb.LocalBuilder.releaseNamePersister(recipes.getHook('releaseNameFormatter')))
            packages = recipes.generatePackages(nf, False, False)
            builder = bb.LocalBuilder(-2, False, False, False, False, recipes.envWhiteList(), '/repo/bob', True, True)
            builder.setArchiveHandler(getArchiver(recipes))
            builder.setLocalDownloadMode('forced')
            step = ExecutableStep.fromStep(packages.queryPackagePath('root').__iter__().__next__().getPackageStep(), LazyIR)
            buf = io.StringIO()
            with contextlib.redirect_stdout(buf), contextlib.redirect_stderr(buf):
                loop = asyncio.new_event_loop()
                try:
                    was, audit = loop.run_until_complete(builder._downloadPackage(step, 0, bid))
                finally:
                    loop.close()
            ws = step.getWorkspacePath()
            if was:
                out = ('accepted', canon(ws) if os.path.isdir(ws) else None, os.path.exists(os.path.join(os.path.dirname(ws), 'audit.json.gz')))
            else:
                out = ('notfound', None, None)
        except BobError as e:
            out = ('rejected', str(e)[:80], None)
        except Exception as e:
            out = ('internal:' + type(e).__name__, str(e)[:80], None)
        finally:
            bob.state.finalize()
        res.append(out)
    shutil.rmtree(d, ignore_errors=True)
    return res


def corruption_worker(job):
    name, k, K, bits, stride, gproj, gart, data, want = job
    base = os.path.join(runner.scratch(), 'c08b-%s-%d' % (name, k))
    shutil.rmtree(base, ignore_errors=True)
    os.makedirs(base)
    # private copy of the project and its archive
    proj = os.path.join(base, 'proj')
    shutil.copytree(gproj, proj, ignore=shutil.ignore_patterns('work', '.bob-*', 'dev'))
    arch = os.path.join(base, 'archive')
    with open(os.path.join(proj, 'default.yaml'), 'w') as f:
        f.write('archive:\n    backend: file\n    path: "%s"\n' % arch)
    art = os.path.join(arch, os.path.relpath(gart, os.path.dirname(os.path.dirname(os.path.dirname(gart)))))
    os.makedirs(os.path.dirname(art))
    n = 0
    viol = []
    outcomes = {}
    allv = list(variants(data, bits, stride)) + list(wellformed_mismatches(data))
    for i, (desc, blob) in enumerate(allv):
        if i % K != k: continue
        n += 1
        r = accept(proj, art, blob)
        kind = desc.split('@')[0]
        outcomes[(kind, r[0][0], r[1][0])] = outcomes.get((kind, r[0][0], r[1][0]), 0) + 1
        for attempt, (oc, cn, au) in enumerate(r):
            if oc == 'accepted':
                if desc != 'intact' and (cn != want or not au):
                    viol.append(('corrupt-artifact-accepted:%s:invocation%d' % (kind, attempt + 1), name, desc,
                                 'artifact variant %s was accepted by invocation %d with %s' % (desc, attempt + 1, 'wrong content' if cn != want else 'no audit trail')))
            if desc == 'intact' and oc != 'accepted' and attempt == 0:
                viol.append(('intact-artifact-not-accepted', name, desc, 'the genuine artifact was not accepted: %s' % (r,)))
    shutil.rmtree(base, ignore_errors=True)
    return n, len(allv), outcomes, viol[:20], len(data)


# ---------------------------------------------------------------------------- C: hostile members
def hostile_members(sb):
    """grammar of hostile members; each entry: (label, [TarInfo/bytes pairs])"""
    out = []

    def f(name, data=b'EVIL'):
        t = tarfile.TarInfo(name); t.size = len(data); t.mode = 0o644
        return (t, data)

    def sym(name, target):
        t = tarfile.TarInfo(name); t.type = tarfile.SYMTYPE; t.linkname = target
        return (t, None)

    def hard(name, target):
        t = tarfile.TarInfo(name); t.type = tarfile.LNKTYPE; t.linkname = target
        return (t, None)

    def special(name, typ):
        t = tarfile.TarInfo(name); t.type = typ; t.devmajor = 1; t.devminor = 3
        return (t, None)
    out.append(('dotdot', [f('../x')]))
    out.append(('content-dotdot', [f('content/../../x')]))
    out.append(('content-deep-dotdot', [f('content/sub/../../../x')]))
    out.append(('absolute', [f(os.path.join(sb, 'abs-victim'))]))
    out.append(('sibling-prefix', [f('content/../workspace2/victim')]))
    out.append(('sibling-prefix-new', [f('content/../workspace.old/x')]))
    out.append(('symlink-out-then-write', [sym('content/l', os.path.join(sb, 'outside')), f('content/l/f')]))
    out.append(('symlink-dotdot-then-write', [sym('content/l', '..'), f('content/l/x')]))
    out.append(('symlink-sibling-then-write', [sym('content/l', '../workspace2'), f('content/l/victim')]))
    out.append(('symlink-abs-file-overwrite', [sym('content/l', os.path.join(sb, 'victim')), f('content/l')]))
    out.append(('hardlink-out-then-write', [hard('content/h', 'content/../../victim'), f('content/h')]))
    out.append(('hardlink-deep-out-then-write', [hard('content/h', 'content/../../../' + os.path.basename(sb) + '/victim'), f('content/h')]))
    out.append(('symlink-then-hardlink-through', [sym('content/l', '..'), hard('content/h', 'content/l/victim'), f('content/h')]))
    out.append(('hardlink-out-chmod', [hard('content/h', 'content/../../victim')]))
    out.append(('hardlink-no-prefix', [hard('content/h', '../../victim')]))
    out.append(('hardlink-abs', [hard('content/h', os.path.join(sb, 'victim'))]))
    out.append(('hardlink-unresolvable', [hard('content/h', 'content/nonexistent')]))
    out.append(('chardev', [special('content/dev', tarfile.CHRTYPE)]))
    out.append(('fifo', [special('content/fifo', tarfile.FIFOTYPE)]))
    out.append(('unknown-toplevel', [f('evil/x')]))
    out.append(('meta-dotdot', [f('meta/../../x')]))
    out.append(('duplicate', [f('content/a', b'1'), f('content/a', b'2')]))
    dt = tarfile.TarInfo('content/../../newdir'); dt.type = tarfile.DIRTYPE; dt.mode = 0o777
    out.append(('dir-dotdot', [(dt, None)]))
    return out


def hostile_worker(job):
    k, K, pairs = job
    stub_signal()
    from bob.archive import LocalArchive, ARTIFACT_SUFFIX
    from bob.errors import BobError
    base = os.path.join(runner.scratch(), 'c08c-%d' % k)
    sb = os.path.join(base, 'sandbox')
    n = 0
    viol = []
    outcomes = {}
    singles = hostile_members(sb)
    combos = [(a,) for a in singles]
    if pairs:
        combos += [(a, b) for a in singles for b in singles if a is not b]
    for i, combo in enumerate(combos):
        if i % K != k: continue
        shutil.rmtree(base, ignore_errors=True)
        proj = os.path.join(sb, 'proj', 'dist')
        os.makedirs(proj)
        ws = os.path.join(proj, 'workspace')
        audit = os.path.join(proj, 'audit.json.gz')
        os.makedirs(os.path.join(proj, 'workspace2'))
        for v in (os.path.join(sb, 'victim'), os.path.join(sb, 'abs-victim'), os.path.join(proj, 'victim'), os.path.join(proj, 'workspace2', 'victim'),
                  os.path.join(sb, 'proj', 'victim')):
            with open(v, 'w') as f: f.write('precious')
        os.makedirs(os.path.join(sb, 'outside'))
        # the artifact
        buf = io.BytesIO()
        with gzip.GzipFile(fileobj=buf, mode='wb', mtime=0) as gz:
            with tarfile.open(fileobj=gz, mode='w', format=tarfile.PAX_FORMAT, pax_headers={'bob-archive-vsn': '1'}) as tar:
                a = tarfile.TarInfo('meta/audit.json.gz'); a.size = 5
                tar.addfile(a, io.BytesIO(b'audit'))
                c = tarfile.TarInfo('content'); c.type = tarfile.DIRTYPE; c.mode = 0o755
                tar.addfile(c)
                g = tarfile.TarInfo('content/good'); g.size = 4
                tar.addfile(g, io.BytesIO(b'good'))
                for label, members in combo:
                    for t, data in members:
                        tar.addfile(t, io.BytesIO(data) if data is not None else None)
        ar = LocalArchive({'backend': 'file', 'path': os.path.join(base, 'archive')})
        p = ar._remoteName(BID, ARTIFACT_SUFFIX)
        os.makedirs(os.path.dirname(p))
        with open(p, 'wb') as f: f.write(buf.getvalue())
        before = snapshot(sb, exclude=(ws, audit))
        n += 1
        label = '+'.join(l for l, _ in combo)
        try:
            r = ar._downloadPackage(BID, ARTIFACT_SUFFIX, audit, ws, [], ws)
            oc = 'accepted' if r[0] else 'notfound'
        except BobError as e:
            oc = 'rejected'
        except Exception as e:
            oc = 'internal:' + type(e).__name__
        outcomes[(combo[0][0], oc)] = outcomes.get((combo[0][0], oc), 0) + 1
        after = snapshot(sb, exclude=(ws, audit))
        if before != after:
            ch = sorted(set(before.items()) ^ set(after.items()), key=lambda x: x[0])
            what = sorted({os.path.relpath(p_, sb) for p_, _ in ch})
            viol.append(('extraction-escapes:' + combo[0][0], label, 'members %s changed paths outside workspace and audit file: %s (outcome %s)' % (label, what, oc)))
    shutil.rmtree(base, ignore_errors=True)
    return n, outcomes, viol[:30]


# ---------------------------------------------------------------------------- driver
def run(ctx):
    quick = ctx.tier == 'quick'
    maxn = int(ctx.opts.get('entries', 2 if quick else 3))
    K = 32
    samples = []
    # A
    n = nt = 0
    if ctx.opts.get('part', 'ABC').find('A') >= 0:
        for a, b, viol, sample in runner.pmap_unordered(roundtrip_worker, [(k, K, maxn) for k in range(K)]):
            n += a; nt += b
            if sample and len(samples) < 2: samples.append(dict(part='roundtrip', tree=sample))
            for key, entries, what in viol:
                ctx.violation(key, 'tree=%s: %s' % ([(KINDS[ki][0], NAMES[ni]) for ki, ni in entries], what), dict(part='A', entries=entries))
        ctx.log('A: %d trees (<=%d entries, %d kinds x %d name rotations) packed and extracted, %d compared' % (n, maxn, len(KINDS), len(NAMES), nt))
    # B
    bn = 0
    bout = {}
    if ctx.opts.get('part', 'ABC').find('B') >= 0:
        projs = ['small'] if quick else ['small', 'empty', 'big']
        KB = 16
        gbase = os.path.join(runner.scratch(), 'c08-genuine')
        os.makedirs(gbase, exist_ok=True)
        jobs = []
        for p in projs:
            gproj, gart, data, want = make_genuine(p, gbase)
            ctx.log('B: genuine artifact of project %s: %d bytes' % (p, len(data)))
            jobs += [(p, k, KB, (not quick) and p == 'small', 4 if quick else 1, gproj, gart, data, want) for k in range(KB)]
        sizes = {}
        for a, tot, oc, viol, size in runner.pmap_unordered(corruption_worker, jobs):
            bn += a
            for kk, v in oc.items(): bout[kk] = bout.get(kk, 0) + v
            for key, pname, desc, what in viol:
                ctx.violation(key, 'project=%s: %s' % (pname, what), dict(part='B', project=pname, variant=desc))
        ctx.log('B: %d artifact variants through the real acceptance path (2 invocations each); outcomes (variant kind, 1st, 2nd): %s' % (
            bn, sorted((k, v) for k, v in bout.items())))
        samples.append(dict(part='corruption', variant='trunc@100', outcomes='rejected, rejected'))
    # C
    cn = 0
    cout = {}
    if ctx.opts.get('part', 'ABC').find('C') >= 0:
        allv = []
        for a, oc, viol in runner.pmap_unordered(hostile_worker, [(k, K, True) for k in range(K)]):
            cn += a
            for kk, v in oc.items(): cout[kk] = cout.get(kk, 0) + v
            allv += viol
        single_bad = {label for key, label, what in allv if '+' not in label}
        for key, label, what in sorted(allv, key=lambda v: (v[1].count('+'), v[1])):
            parts = label.split('+')
            if len(parts) > 1 and (set(parts) & single_bad): continue     # already reported for the member alone
            ctx.violation('extraction-escapes:' + label, what, dict(part='C', members=label))
        ctx.log('C: %d hostile archives extracted; outcomes by first member: %s' % (cn, sorted((k, v) for k, v in cout.items())))
        samples.append(dict(part='hostile', members='symlink-out-then-write+hardlink-out-then-write'))
    tot = n + bn + cn
    return ctx.finish(dict(
        states=tot, transitions=n + 2 * bn + cn, traces_validated_against_impl=tot, evaluations=n + 2 * bn + cn, distinct_nontrivial=nt + bn + cn,
        rule='A: one evaluation = one tree packed by the real TarHelper._pack and extracted by LocalArchive._downloadPackage; B: one artifact variant '
             '(every truncation length, every 4th byte xor 0xff (thorough: every byte, every single bit for one project), well-formed content/audit/pax mismatches) through the real '
             'LocalBuilder._downloadPackage, two invocations; C: one archive with 1-2 hostile members extracted next to a sentinel tree; all distinct by construction',
        exhaustive=True, samples=samples,
        bounds=dict(tree_entries=maxn, kinds=[k[0] for k in KINDS], names=NAMES, corruption_projects=(['small'] if quick else ['small', 'empty', 'big']),
                    hostile_members=[l for l, _ in hostile_members('/sb')], hostile_combos='all singles and ordered pairs'),
        roundtrip_trees=n, corruption_variants=bn, hostile_archives=cn,
        corruption_outcomes={'%s/%s/%s' % k: v for k, v in bout.items()}, hostile_outcomes={'%s/%s' % k: v for k, v in cout.items()}),
        assumptions=['corruptions that keep gzip CRC, tar checksums and the content hash intact are out of scope (none of the enumerated ones does)',
                     'internal exceptions during download count as "download fails" (not accepted); only acceptance of wrong content and escapes are violations'])


def replay(ctx, body):
    r = body['replay']
    print(r)
    if r['part'] == 'C':
        sb_labels = r['members'].split('+')
        print('re-run: ./check C08 --opt part=C and look for', sb_labels)
    return 0
