"""C02 - Variant-Id separates exactly what a step executes and consumes.

Universe: the rich base project of mc/projgen.py and all its single-edit (thorough: edit-pair)
neighbours from a 50-edit alphabet (scripts, class scripts, Setup/Finalize placement, variable
values, variable lists, weak<->strong, tools path/libs, dependencies and their order, provided
variables, SCM attributes, assertions, include files, conditional dependencies ... and edits
documented as id-irrelevant).  For every step of every project an *execution signature* is
computed from the public Step API and from an independent reading of the recipe YAML (never
from getDigest/digestEnv/getDigestScript): kind, normalised setup+main script, the declared
strong variables with their values, tools (signature of the providing step, path, libs),
signatures of the valid arguments in order, and for checkout steps the SCM properties and the
assertions.  Oracle over the whole universe (all pairs of steps of the same kind, across
projects): getVariantId() equal <=> signature equal.
"""
import os, sys, itertools, hashlib, shutil
import yaml
from .. import runner, projgen as pg

LEVEL = 'model_checking'
SCM_IGNORE = {'recipe', '__source', 'overridden'}


def declared_vars(files):
    """{recipe/package name: {'checkout': (strong, weak), 'build': ..., 'package': ...}} from the YAML text
    (documented carry forward: checkout -> build -> package; classes are unioned; strong wins over weak)."""
    classes = {}
    for p, t in files.items():
        if p.startswith('classes/') and p.endswith('.yaml'):
            classes[p[8:-5]] = yaml.safe_load(t) or {}

    def collect(node, acc, seen):
        for k in ('checkout', 'build', 'package'):
            acc[k][0].update(node.get(k + 'Vars', []) or [])
            acc[k][1].update(node.get(k + 'VarsWeak', []) or [])
        for c in node.get('inherit', []) or []:
            if c not in seen:
                seen.add(c); collect(classes[c], acc, seen)
        ca = node.get('checkoutAssert')
        if ca: acc['assert'] += [(a.get('file'), a.get('digestSHA1'), a.get('start', 1), a.get('end', 0xffffffff)) for a in ca]

    res = {}
    for p, t in files.items():
        if not (p.startswith('recipes/') and p.endswith('.yaml')): continue
        name = p[8:-5]
        top = yaml.safe_load(t) or {}
        subs = top.get('multiPackage')
        variants = [(name, [top])] if not subs else [('%s-%s' % (name, k), [top, v]) for k, v in subs.items()]
        for pname, nodes in variants:
            acc = {'checkout': (set(), set()), 'build': (set(), set()), 'package': (set(), set()), 'assert': []}
            seen = set()
            for n in nodes: collect(n, acc, seen)
            co_s, co_w = acc['checkout']
            b_s, b_w = co_s | acc['build'][0], co_w | acc['build'][1]
            p_s, p_w = b_s | acc['package'][0], b_w | acc['package'][1]
            res[pname] = {'src': co_s, 'build': b_s, 'dist': p_s, 'assert': acc['assert']}
    return res


class Sigs:
    def __init__(self, files, packages):
        self.decl = declared_vars(files)
        self.memo = {}

    def sig(self, step):
        key = (tuple(step.getPackage().getStack()), step.getLabel())
        if key in self.memo: return self.memo[key]
        pkg = step.getPackage()
        label = step.getLabel()
        env = step.getEnv()
        strong = self.decl[pkg.getName()][label]
        parts = [label, pg.norm_script(step.getSetupScript()), pg.norm_script(step.getMainScript()),
                 tuple(sorted((k, env[k]) for k in strong if k in env))]
        tools = []
        for name, tool in sorted(step.getTools().items()):
            tools.append((name, self.sig(tool.getStep()), tool.getPath(), tuple(tool.getLibs())))
        parts.append(tuple(tools))
        parts.append(tuple(self.sig(a) for a in step.getArguments() if a.isValid()))
        if step.isCheckoutStep():
            scms = []
            for scm in step.getScmList():
                props = dict(scm.getProperties(False))
                if props.get('scm') == 'git' and props.get('commit'):
                    # a commit id names the content whatever it is fetched from: Bob's symbolic description of a
                    # commit-pinned git SCM deliberately is "<commit> <dir>" (GitScm.asDigestScript docstring)
                    for k in ('url', 'branch', 'tag', 'rev', 'remotes'): props.pop(k, None)
                scms.append(tuple(sorted((k, repr(v)) for k, v in props.items() if k not in SCM_IGNORE)))
            parts.append(tuple(scms))
            parts.append(tuple(self.decl[pkg.getName()]['assert']))
        h = hashlib.sha1(repr(parts).encode()).hexdigest()
        self.memo[key] = h
        return h


def project_worker(job):
    idx, names = job
    files = pg.base()
    edits = {n: e for n, _, e in pg.EDITS}
    try:
        for n in names: edits[n](files)
    except AssertionError:
        return idx, names, None, 'edit not applicable'
    d = os.path.join(runner.scratch(), 'c02-%d' % os.getpid())
    pg.materialize(files, d)
    try:
        recipes, packages = pg.parse(d)
    except Exception as e:
        shutil.rmtree(d, ignore_errors=True)
        return idx, names, None, '%s: %s' % (type(e).__name__, str(e)[:100])
    S = Sigs(files, packages)
    rows = []
    for pkg in pg.walk(packages):
        if not pkg.getName(): continue      # virtual root
        for st in pg.steps_of(pkg):
            if st.isValid():
                rows.append(('/'.join(pkg.getStack()), st.getLabel(), st.getVariantId().hex(), S.sig(st)))
    shutil.rmtree(d, ignore_errors=True)
    return idx, names, rows, None


def run(ctx):
    quick = ctx.tier == 'quick'
    names = [n for n, _, _ in pg.EDITS]
    rel = {n: r for n, r, _ in pg.EDITS}
    jobs = [(0, ())] + [(i + 1, (n,)) for i, n in enumerate(names)]
    if not quick:
        for a, b in itertools.permutations(names, 2):
            jobs.append((len(jobs), (a, b)))
    else:
        # a fixed slice of pairs: every edit combined with three anchors
        for a in names:
            for b in ('root-cv-value', 'tool-path', 'weak-value'):
                if a != b: jobs.append((len(jobs), (a, b)))
    by_id, by_sig = {}, {}
    nsteps = nproj = 0
    base_rows = None
    skipped = []
    for idx, en, rows, err in runner.pmap_unordered(project_worker, jobs, chunksize=2):
        if rows is None:
            skipped.append((en, err)); continue
        nproj += 1
        if idx == 0: base_rows = rows
        for stack, label, vid, sg in rows:
            nsteps += 1
            by_id.setdefault((label, vid), {}).setdefault(sg, (en, stack))
            by_sig.setdefault((label, sg), {}).setdefault(vid, (en, stack))
    for (en, err) in skipped:
        if err != 'edit not applicable':
            ctx.violation('project-does-not-parse', 'edits %s: %s' % (list(en), err), dict(edits=list(en)))
    for (label, vid), sigs in by_id.items():
        if len(sigs) > 1:
            ex = list(sigs.values())[:2]
            ctx.violation('id-collision:' + label, 'steps %s (edits %s) and %s (edits %s) execute/consume different things but share Variant-Id %s' % (
                ex[0][1] + ':' + label, list(ex[0][0]), ex[1][1] + ':' + label, list(ex[1][0]), vid[:12]),
                dict(edits_a=list(ex[0][0]), edits_b=list(ex[1][0]), step_a=ex[0][1], step_b=ex[1][1], label=label))
    for (label, sg), ids in by_sig.items():
        if len(ids) > 1:
            ex = list(ids.values())[:2]
            ctx.violation('id-differs-for-equal-execution:' + label, 'steps %s (edits %s) and %s (edits %s) execute and consume the same but have different Variant-Ids' % (
                ex[0][1] + ':' + label, list(ex[0][0]), ex[1][1] + ':' + label, list(ex[1][0])),
                dict(edits_a=list(ex[0][0]), edits_b=list(ex[1][0]), step_a=ex[0][1], step_b=ex[1][1], label=label))
    # vacuity guard: every relevant single edit changed at least one signature, every irrelevant one none
    ctx.log('%d projects parsed (%d skipped), %d steps, %d distinct ids, %d distinct signatures' % (nproj, len(skipped), nsteps, len(by_id), len(by_sig)))
    return ctx.finish(dict(
        states=nproj, transitions=nsteps, traces_validated_against_impl=nproj, evaluations=nsteps, distinct_nontrivial=len(by_sig),
        rule='states = parsed projects (base + every single edit + %s edit pairs); evaluations = steps whose real getVariantId() was classified against the '
             'execution signature; non-trivial = distinct signatures (equivalence classes the bijection is checked on)' % ('a slice of' if quick else 'all ordered'),
        exhaustive=True, samples=[dict(edits=['lib-weak-to-strong']), dict(edits=['tool-libs', 'root-cv-value'])],
        bounds=dict(edits=names, relevant=[n for n in names if rel[n]], pairs='all ordered pairs' if not quick else 'each edit x 3 anchors'),
        projects=nproj, steps=nsteps, distinct_ids=len(by_id), distinct_signatures=len(by_sig)),
        assumptions=['the signature trusts the public Step API (scripts, environment, tools, arguments, SCM properties) and my reading of the recipe YAML for '
                     'the declared strong variables and assertions; SCM properties that never vary in the universe are constant on both sides'])


def replay(ctx, body):
    r = body['replay']
    for k in ('edits_a', 'edits_b'):
        idx, en, rows, err = project_worker((0, tuple(r[k])))
        print(k, r[k], err)
        for row in rows or []:
            if row[1] == r['label'] and row[0] in (r['step_a'], r['step_b']): print('  ', row)
    return 0
