"""C19 - archive retention keeps exactly what is selected or referenced.

Explicit enumeration of histories over a pool of 6 artifacts (real tgz files with audit trails:
a reference DAG through build records, shared references, missing sort field, equal dates, a
metaEnv field on some): actions add / remove behind Bob's back / replace artifact i, `archive
scan`, `archive find <e>`, `archive clean [--dry-run] <e...>` with expression lists from the
documented grammar.  Every command is the real `bob archive -l ...` code run in-process in the
archive directory with whatever index (.bob-archive.sqlite3) the history left behind.
Oracle (reference model on the *actual* archive content): find lists exactly the selected
artifacts; clean keeps selected + transitively referenced and deletes the rest; --dry-run changes
nothing and prints exactly what clean would delete; ties on the sort key allow any valid choice.
"""
import os, sys, io, gzip, json, tarfile, shutil, itertools, contextlib, hashlib
from .. import runner

LEVEL = 'model_checking'


def bid(i, variant=0):
    return hashlib.sha1(b'artifact-%d' % i).hexdigest()


POOL = {
    # i: (package, date or None, metaEnv REL or None, references (pool indexes), via build record?)
    0: ('app', '2020-01-01T00:00:00+00:00', '1', [3], True),
    1: ('app', '2020-01-02T00:00:00+00:00', None, [3], False),
    2: ('app', '2020-01-02T00:00:00+00:00', '1', [4], False),
    3: ('lib', '2019-01-01T00:00:00+00:00', None, [], False),
    4: ('lib2', None, None, [5], False),
    5: ('tool', '2018-01-01T00:00:00+00:00', '0', [], False),
    6: ('util', '2017-01-01T00:00:00+00:00', '', [], False),       # field present but empty
}
# replaced variant of artifact 0: newer date, no REL
VARIANT = {0: ('app', '2020-01-03T00:00:00+00:00', None, [3], True)}


def record(i, spec, step='dist', aid=None, args=()):
    pkg, date, rel, refs, via = spec
    build = {'sysname': 'Linux', 'nodename': 'n', 'release': 'r', 'version': 'v', 'machine': 'm'}
    if date is not None: build['date'] = date
    d = {'variant-id': '11' * 20, 'build-id': bid(i), 'artifact-id': aid or hashlib.sha1(('aid-%d-%s' % (i, step)).encode()).hexdigest(),
         'result-hash': '22' * 20, 'meta': {'package': pkg, 'recipe': pkg, 'step': step, 'bob': 'x', 'language': 'bash'},
         'build': build, 'env': '', 'scms': [], 'dependencies': {'args': list(args)} if args else {}}
    if rel is not None: d['metaEnv'] = {'REL': rel}
    return d


def make_artifact(i, variant=0):
    spec = VARIANT[i] if variant else POOL[i]
    refs = []
    args = []
    for j in spec[3]:
        dist = record(j, POOL[j])
        if spec[4]:
            # reference through a build record of the own package
            b = record(i, spec, step='build', aid=hashlib.sha1(b'build-rec-%d' % i).hexdigest(), args=[dist['artifact-id']])
            refs += [dist, b]; args.append(b['artifact-id'])
        else:
            refs.append(dist); args.append(dist['artifact-id'])
    art = record(i, spec, args=args)
    if variant: art['artifact-id'] = hashlib.sha1(b'variant-%d' % i).hexdigest()
    tree = {'artifact': art, 'references': refs}
    agz = io.BytesIO()
    with gzip.GzipFile(fileobj=agz, mode='wb', mtime=0) as g:
        g.write(json.dumps(tree).encode())
    buf = io.BytesIO()
    with gzip.GzipFile(fileobj=buf, mode='wb', mtime=0) as gz:
        with tarfile.open(fileobj=gz, mode='w', format=tarfile.PAX_FORMAT, pax_headers={'bob-archive-vsn': '1'}) as tar:
            t = tarfile.TarInfo('meta/audit.json.gz'); t.size = len(agz.getvalue())
            tar.addfile(t, io.BytesIO(agz.getvalue()))
            c = tarfile.TarInfo('content'); c.type = tarfile.DIRTYPE
            tar.addfile(c)
            f = tarfile.TarInfo('content/data'); payload = b'payload-%d-%d' % (i, variant) * (1 + variant); f.size = len(payload)
            tar.addfile(f, io.BytesIO(payload))
    return buf.getvalue()


_blobs = {}


def blob(i, variant):
    if (i, variant) not in _blobs: _blobs[(i, variant)] = make_artifact(i, variant)
    return _blobs[(i, variant)]


def path_of(i):
    b = bid(i)
    return os.path.join(b[0:2], b[2:4], b[4:] + '-1.tgz')


# ---------------------------------------------------------------------------- expressions + reference
PREDS = [
    ('meta.package == "app"', lambda a: a['pkg'] == 'app'),
    ('meta.package != "app"', lambda a: a['pkg'] != 'app'),
    ('metaEnv.REL == "1"', lambda a: a['rel'] == '1'),
    ('metaEnv.REL != "1"', lambda a: a['rel'] != '1'),
    ('meta.package == "app" && metaEnv.REL == "1"', lambda a: a['pkg'] == 'app' and a['rel'] == '1'),
    ('meta.package == "lib" || meta.package == "tool"', lambda a: a['pkg'] in ('lib', 'tool')),
    ('!(meta.package == "app")', lambda a: a['pkg'] != 'app'),
    ('meta.step == "dist"', lambda a: True),
    ('meta.package == "nothing"', lambda a: False),
    ('meta.package >= "lib"', lambda a: a['pkg'] >= 'lib'),
    ('metaEnv.REL == ""', lambda a: a['rel'] == ''),
    ('metaEnv.REL != ""', lambda a: a['rel'] != ''),
]
ORDERS = [('', 'date', False), (' ORDER BY build.date ASC', 'date', True), (' ORDER BY meta.package DESC', 'pkg', False), (' ORDER BY metaEnv.REL', 'rel', False)]


def expressions(quick):
    E = []
    for ptxt, pfn in PREDS:
        E.append((ptxt, pfn, None, None, False))
    for pi, (ptxt, pfn) in enumerate(PREDS):
        if quick and pi not in (0, 1, 3, 5, 7, 11): continue
        for lim in (1, 2):
            for oi, (otxt, field, asc) in enumerate(ORDERS):
                if quick and (lim, oi) not in ((1, 0), (1, 1), (2, 3)): continue
                E.append(('%s LIMIT %d%s' % (ptxt, lim, otxt), pfn, lim, field, asc))
    return E


def attrs(i, variant):
    spec = VARIANT[i] if variant else POOL[i]
    return dict(i=i, pkg=spec[0], date=spec[1], rel=spec[2], refs=spec[3])


def select(expr, present):
    """all valid selections (set of frozensets) for one expression on the present artifacts"""
    ptxt, pfn, lim, field, asc = expr
    match = [a for a in present if pfn(a)]
    if lim is None or len(match) <= lim:
        return [frozenset(a['i'] for a in match)]
    have = [a for a in match if a[field] is not None]
    none = [a for a in match if a[field] is None]
    have.sort(key=lambda a: a[field], reverse=not asc)
    ranked = have + none
    # ties at the boundary: any choice among equal keys is valid
    res = set()
    boundary = ranked[lim - 1][field]
    sure = [a for a in ranked[:lim] if a[field] != boundary]
    tie = [a for a in ranked if a[field] == boundary]
    for combo in itertools.combinations(tie, lim - len(sure)):
        res.add(frozenset(a['i'] for a in sure) | frozenset(a['i'] for a in combo))
    return list(res)


def closure(sel, present):
    byi = {a['i']: a for a in present}
    kept = set(sel)
    todo = list(sel)
    while todo:
        i = todo.pop()
        for j in byi[i]['refs']:
            if j in byi and j not in kept:
                kept.add(j); todo.append(j)
    return kept


# ---------------------------------------------------------------------------- actions
def run_cmd(argv):
    from bob.cmds.archive import doArchive
    from bob.errors import BobError
    buf = io.StringIO()
    try:
        with contextlib.redirect_stdout(buf), contextlib.redirect_stderr(io.StringIO()):
            doArchive(['-l'] + argv, None)
        return 'ok', buf.getvalue()
    except BobError as e:
        return 'error', str(e)
    except SystemExit as e:
        return 'exit', str(e.code)
    except Exception as e:
        return 'internal', '%s: %s' % (type(e).__name__, str(e)[:100])


def listed(out):
    res = set()
    for l in out.splitlines():
        l = l.strip()
        if l.endswith('-1.tgz'):
            for i in POOL:
                if l == path_of(i): res.add(i)
    return res


class Arch:
    def __init__(self, d):
        self.d = d
        shutil.rmtree(d, ignore_errors=True)
        os.makedirs(d)
        self.present = {}       # i -> variant
        self.clock = 1_500_000_000 * 10**9

    def put(self, i, variant):
        p = os.path.join(self.d, path_of(i))
        os.makedirs(os.path.dirname(p), exist_ok=True)
        tmp = p + '.tmp'
        with open(tmp, 'wb') as f: f.write(blob(i, variant))
        os.replace(tmp, p)
        self.clock += 10**9
        os.utime(p, ns=(self.clock, self.clock))
        self.present[i] = variant

    def remove(self, i):
        os.unlink(os.path.join(self.d, path_of(i)))
        del self.present[i]

    def actual(self):
        return {i for i in POOL if os.path.exists(os.path.join(self.d, path_of(i)))}


def history_worker(job):
    k, K, depth, quick = job
    E = expressions(quick)
    cmdexprs = [[e] for e in E]
    # a slice of two-expression lists
    pairs = [[E[a], E[b]] for a in range(0, len(E), 5) for b in range(2, len(E), 7)]
    base = os.path.join(runner.scratch(), 'c19-%d' % k)
    viol = {}
    nhist = ncmd = nviol = 0
    outcomes = set()
    # actions that change the archive / index; the final action of every history is a checked command
    acts_full = [('rm', i) for i in POOL] + [('repl', 0), ('scan',), ('cleanall',), ('cleanrel',), ('dryall',)] + [('add', i) for i in POOL]
    acts_empty = [('add', i) for i in POOL] + [('scan',)]
    hists = []
    for init in ('empty', 'full', 'full-scanned'):
        acts = acts_empty if init == 'empty' else acts_full
        maxl = depth - 1 if (init == 'full-scanned' or not quick) else min(depth - 1, 1)
        for L in range(0, maxl + 1):
            for pre in itertools.product(acts, repeat=L):
                pres = set() if init == 'empty' else set(POOL)
                ok = True
                for a in pre:
                    if a[0] == 'add':
                        if a[1] in pres: ok = False; break
                        pres.add(a[1])
                    elif a[0] in ('rm', 'repl'):
                        if a[1] not in pres: ok = False; break
                        if a[0] == 'rm': pres.discard(a[1])
                    elif a[0] == 'cleanall':
                        if not pres: ok = False; break
                        pres = None; break      # ties: content after this clean is whatever the real code chose: only as last action
                    elif a[0] == 'cleanrel':
                        if not pres: ok = False; break
                        cur = [attrs(i, 0) for i in sorted(pres)]
                        pres = closure({x['i'] for x in cur if x['rel'] == '1'}, cur)     # tie free; the command itself is checked elsewhere
                if ok and (pres is not None or a is pre[-1]):
                    hists.append((init,) + pre)
    if True:
        # curated longer histories: an artifact disappears, the index is refreshed or pruned by a clean, the artifact comes back
        for i in POOL:
            for mid in (('scan',), ('cleanrel',), ('cleanall',)):
                hists.append(('full-scanned', ('rm', i), mid, ('add', i)))
    idx = -1
    for pre in hists:
        if True:
            idx += 1
            if idx % K != k: continue
            nhist += 1
            # the checked commands: every find, every clean --dry-run, and cleans (each on a fresh replay)
            cmds = [('find', el) for el in cmdexprs] + [('dry', el) for el in cmdexprs[::2]] + [('clean', el) for el in cmdexprs] + \
                   [('clean', el) for el in pairs[::3 if quick else 1]] + [('find', el) for el in pairs[::5 if quick else 1]]
            # -n (no scan) works on the index as it is: where the history ends with a command that has just scanned the
            # archive (scan, clean, clean --dry-run) the index is exact and -n must give the reference result too
            mods = [j for j, a in enumerate(pre[1:]) if a[0] in ('add', 'rm', 'repl')]
            scans = [j for j, a in enumerate(pre[1:]) if a[0] in ('scan', 'cleanall', 'cleanrel', 'dryall')]
            if (scans and (not mods or scans[-1] > mods[-1])) or (pre[0] == 'full-scanned' and not mods):
                cmds += [('find-n', el) for el in cmdexprs[::3]] + [('clean-n', el) for el in cmdexprs[1::3]]
            dirty = True
            os.makedirs(base, exist_ok=True)
            A = None
            for kind, el in cmds:
                if True:      # every checked command sees the index exactly as the history left it
                    A = Arch(os.path.join(base, 'ar'))
                    os.chdir(A.d)
                    if pre[0] != 'empty':
                        for i in POOL: A.put(i, 0)
                        if pre[0] == 'full-scanned': run_cmd(['scan'])
                    for a in pre[1:]:
                        if a[0] == 'add': A.put(a[1], 0)
                        elif a[0] == 'rm': A.remove(a[1])
                        elif a[0] == 'repl': A.put(a[1], 1)
                        elif a[0] == 'scan': run_cmd(['scan'])
                        elif a[0] == 'cleanall': run_cmd(['clean', 'meta.package == "app" LIMIT 1'])
                        elif a[0] == 'cleanrel': run_cmd(['clean', 'metaEnv.REL == "1"'])
                        elif a[0] == 'dryall': run_cmd(['clean', '--dry-run', 'meta.package == "nothing"'])
                    dirty = False
                for i in list(A.present):
                    if i not in A.actual(): del A.present[i]          # deleted by a clean of the history
                present = [attrs(i, v) for i, v in sorted((i, A.present.get(i, 0)) for i in A.actual())]
                before = A.actual()
                texts = [e[0] for e in el]
                ncmd += 1
                noscan = kind.endswith('-n')
                if noscan: kind = kind[:-2]
                if kind == 'find':
                    st, out = run_cmd(['find'] + (['-n'] if noscan else []) + texts)
                elif kind == 'dry':
                    st, out = run_cmd(['clean', '--dry-run'] + texts)
                else:
                    st, out = run_cmd(['clean'] + (['-n'] if noscan else []) + texts)
                    dirty = True
                after = A.actual()
                outcomes.add((kind, st, len(before), len(after)))
                desc = 'archive %s, history %s then %s%s %s' % (pre[0], [' '.join(map(str, a)) for a in pre[1:]], kind, ' -n' if noscan else '', texts)
                vs = []
                if st == 'internal':
                    vs.append(('command-raises:' + out.split(':')[0], out))
                elif st != 'ok':
                    vs.append(('command-fails', '%s: %s' % (st, out[:100])))
                else:
                    sels = [select(e, present) for e in el]
                    valid_sel = {frozenset().union(*combo) for combo in itertools.product(*sels)}
                    if kind == 'find':
                        got = listed(out)
                        if frozenset(got) not in valid_sel:
                            ghosts = got - before
                            vs.append(('find-lists-removed-artifact' if ghosts else 'find-wrong-selection',
                                       'listed %s, reference %s (archive holds %s)' % (sorted(got), [sorted(s) for s in valid_sel][:3], sorted(before))))
                        if after != before: vs.append(('find-changes-archive', 'archive changed'))
                    else:
                        valid_keep = {frozenset(closure(s, present)) for s in valid_sel}
                        if kind == 'dry':
                            if after != before: vs.append(('dry-run-deletes', 'archive changed from %s to %s' % (sorted(before), sorted(after))))
                            would = frozenset(before - listed(out))
                            if would not in valid_keep:
                                vs.append(('dry-run-wrong-list', 'would keep %s, reference %s' % (sorted(would), [sorted(s) for s in valid_keep][:3])))
                        else:
                            if frozenset(after) not in valid_keep:
                                lost = [sorted(set(s) - after) for s in valid_keep][:1]
                                kind_ = 'clean-deletes-kept-artifact' if all(set(s) - after for s in valid_keep) else 'clean-keeps-garbage'
                                vs.append((kind_, 'archive %s -> %s, reference keeps %s' % (sorted(before), sorted(after), [sorted(s) for s in valid_keep][:3])))
                for key, what in vs:
                    if noscan: key += ':noscan-on-fresh-index'
                    nviol += 1
                    if key not in viol: viol[key] = (key, desc, what)
    shutil.rmtree(base, ignore_errors=True)
    return nhist, ncmd, nviol, list(viol.values()), len(outcomes)


def run(ctx):
    quick = ctx.tier == 'quick'
    depth = int(ctx.opts.get('depth', 3))       # thorough: same history depth, the full expression family (depth 4 does not fit: hours)
    K = 64
    nh = nc = nv = 0
    for a, b, c, viols, no in runner.pmap_unordered(history_worker, [(k, K, depth, quick) for k in range(K)]):
        nh += a; nc += b; nv += c
        for key, desc, what in viols:
            ctx.violation(key, desc + ': ' + what, dict(desc=desc))
    ctx.log('%d histories (<=%d archive/index actions), %d checked commands, %d violations' % (nh, depth - 1, nc, nv))
    return ctx.finish(dict(
        states=nh, transitions=nc, traces_validated_against_impl=nc, evaluations=nc, distinct_nontrivial=nc,
        rule='states = feasible histories of add/remove/replace/scan/clean actions on a 6-artifact pool; transitions = checked find / clean --dry-run / clean commands '
             '(real doArchive code, in-process, index as left by the history), each compared with the reference retention model on the actual archive content',
        exhaustive=True, samples=[dict(history=['add 1', 'add 3', 'scan', 'rm 1'], command='clean meta.package == "app" LIMIT 1')],
        bounds=dict(history_depth=depth - 1, pool=len(POOL), expressions=len(expressions(quick)), predicates=[p[0] for p in PREDS], limits=[None, 1, 2], orders=[o[0] for o in ORDERS])),
        assumptions=['-n (skip scan) is only checked where the history ends with a command that has just scanned the archive (on a stale index working on stale data is its documented purpose)', 'ties on the sort key allow any valid choice',
                     'comparisons other than ==/!= are only applied to fields present in every pool artifact'])


def replay(ctx, body):
    print(body['replay'])
    return 0
