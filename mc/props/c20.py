"""C20 - Jenkins job graph is acyclic, complete and faithful.

Bounded-exhaustive over generated projects: R recipes x 2 multiPackage variants each, where each
variant may depend on / take a tool from / take its sandbox from variants of *other* recipes
(package level acyclic, but the edges cross between sibling variants - the shapes where greedy
merging of same-named jobs can close a cycle), x root sets x `jobs.isolate` patterns x
shortdescription on/off.  The real genJenkinsJobs runs on a real BobState with a registered Jenkins.
Oracle: job display names <-> internal names one to one; genJenkinsBuildOrder succeeds (acyclic);
every valid step reachable from the roots (arguments, tools, sandbox) is in exactly one job; each
job's upstream set contains the jobs of all dependencies of its steps; dumpJobSpec() -> decode ->
PartialIR.fromData reproduces for every fully dumped step the live Variant-Id, Build-Id (same
getDigestCoro inputs), digest script, scripts, environment, tools, arguments and workspace path.
"""
import os, sys, shutil, itertools, json, base64, lzma, io, contextlib, asyncio, hashlib
from .. import runner

LEVEL = 'model_checking'


def variants(R):
    # total order used for package-level acyclicity: by (variant letter, recipe index) - interleaves the recipes
    return sorted(((r, v) for r in range(1, R + 1) for v in 'ab'), key=lambda x: (x[1], x[0]))


def pname(x):
    return 'r%d-%s' % x


def projects(R, maxedges):
    V = variants(R)
    pairs = [(u, v) for i, u in enumerate(V) for v in V[:i] if u[0] != v[0]]        # u may depend on earlier v of another recipe
    for n in range(0, maxedges + 1):
        for combo in itertools.combinations(pairs, n):
            for kinds in itertools.product(('dep', 'tool', 'sandbox'), repeat=n):
                # at most one sandbox edge per consumer
                if any(sum(1 for (p, k) in zip(combo, kinds) if k == 'sandbox' and p[0] == u) > 1 for u in V): continue
                yield V, list(zip(combo, kinds))


def write_project(d, R, edges, roots):
    os.makedirs(os.path.join(d, 'recipes'))
    with open(os.path.join(d, 'config.yaml'), 'w') as f: f.write('bobMinimumVersion: "0.25"\n')
    for r in range(1, R + 1):
        lines = ['checkoutDeterministic: True', 'checkoutScript: |\n    echo src-r%d' % r, 'multiPackage:']
        for v in 'ab':
            u = (r, v)
            lines.append('    %s:' % v)
            deps = []
            tools = []
            for ((a, b), kind) in edges:
                if a != u: continue
                if kind == 'dep': deps.append('            - %s' % pname(b))
                elif kind == 'tool':
                    deps.append('            - name: %s\n              use: [tools]' % pname(b)); tools += ['t-' + pname(b), 'u-' + pname(b)]
                else:
                    # first in the list and forwarded: the following dependencies of this variant are built inside the sandbox
                    deps.insert(0, '            - name: %s\n              use: [sandbox]\n              forward: True' % pname(b))
            if deps: lines.append('        depends:\n' + '\n'.join(deps))
            if tools: lines.append('        buildTools: [%s]' % ', '.join(tools))
            lines.append('        buildVars: [BV]\n        environment: {BV: "%s"}' % pname(u))
            lines.append('        buildScript: |\n            echo build-%s "$@"' % pname(u))
            lines.append('        packageScript: |\n            echo pkg-%s' % pname(u))
            # two tools with different path / library directories from one provider
            lines.append('        provideTools:\n            t-%s: "bin"\n            u-%s:\n                path: "sbin"\n                libs: ["lib"]' % (pname(u), pname(u)))
            lines.append('        provideSandbox:\n            paths: ["/bin"]')
        with open(os.path.join(d, 'recipes', 'r%d.yaml' % r), 'w') as f: f.write('\n'.join(lines) + '\n')
    with open(os.path.join(d, 'recipes', 'top.yaml'), 'w') as f:
        f.write('root: True\ndepends:\n' + '\n'.join('    - %s' % pname(x) for x in roots) + '\nbuildScript: |\n    echo top "$@"\npackageScript: |\n    echo top-pkg\n')


def decode_spec(spec):
    return json.loads(lzma.decompress(base64.a85decode(spec)).decode('ascii'))


def build_ids(steps):
    """Build-Id of each StepIR; the ids of all dependencies are supplied by the harness as a function of their Variant-Id
    (on the build node they come from the upstream jobs, dependencies are only partially dumped)"""
    async def calc(lst):
        return [hashlib.sha1(b'DEP' + x.getVariantId()).digest() for x in lst]
    loop = asyncio.new_event_loop()
    try:
        return [loop.run_until_complete(s.getDigestCoro(calc, fingerprint=b'', platform=b'P', relaxTools=True)) for s in steps]
    finally:
        loop.close()


def check_project(job):
    idx, R, edges, roots, isolate, shortdesc, sandbox = job
    import bob.state
    from bob.state import BobState, JenkinsConfig
    from bob.input import RecipeSet
    from bob.errors import BobError
    from bob.cmds.jenkins.jenkins import genJenkinsJobs, genJenkinsBuildOrder, jenkinsNameFormatter
    from bob.cmds.jenkins.intermediate import getJenkinsVariantId, PartialIR
    from bob.cmds.build.build import ExecutableStep, LazyIR
    d = os.path.join(runner.scratch(), 'c20-%d' % os.getpid())
    shutil.rmtree(d, ignore_errors=True)
    os.makedirs(d)
    write_project(d, R, edges, roots)
    os.chdir(d)
    desc = 'R=%d edges=%s roots=%s isolate=%r shortdescription=%s sandbox=%s' % (
        R, [(pname(a), kind, pname(b)) for (a, b), kind in edges], [pname(x) for x in roots], isolate, shortdesc, sandbox)
    viol = []
    njobs = nsteps = 0
    buf = io.StringIO()
    try:
        with contextlib.redirect_stdout(buf), contextlib.redirect_stderr(buf):
            cfg = JenkinsConfig('http://localhost/', 'uuid')
            cfg.roots = ['top']
            cfg.sandbox = 'yes' if sandbox else 'no'
            cfg.shortdescription = shortdesc
            if isolate: cfg.setOption('jobs.isolate', isolate, lambda m: None)
            BobState().addJenkins('t', cfg)
            recipes = RecipeSet()
            recipes.defineHook('jenkinsNameFormatter', jenkinsNameFormatter)
            try:
                jobs = genJenkinsJobs(recipes, 't')
            except BobError as e:
                return idx, 0, 0, [('generation-fails', desc, str(e)[:150])]
            except Exception as e:
                import traceback
                tb = traceback.extract_tb(e.__traceback__)
                site = tb[-1].name
                return idx, 0, 0, [('job-generation-crashes:%s:%s' % (type(e).__name__, site), desc, 'genJenkinsJobs raised %s in %s (%s:%d)' % (
                    type(e).__name__, site, os.path.basename(tb[-1].filename), tb[-1].lineno))]
            try:
                order = genJenkinsBuildOrder(jobs)
            except BobError as e:
                viol.append(('job-graph-cyclic', desc, str(e)[:200]))
                order = None
            njobs = len(jobs)
            # the steps the jobs hold are the live objects of the originating project
            owner = {}
            held = {}
            for name, j in jobs.items():
                for st in list(j.getCheckoutSteps()) + list(j.getBuildSteps()) + list(j.getPackageSteps()):
                    vid = getJenkinsVariantId(st) + st.getLabel().encode()
                    owner.setdefault(vid, []).append(name)
                    held.setdefault(name, []).append((vid, st))
            nsteps = sum(len(v) for v in held.values())
            # every package (Jenkins identity: variant + sandbox variant) is built by exactly one job
            for vid, o in owner.items():
                if vid.endswith(b'dist') and len(o) != 1:
                    st = [x for v, x in held[o[0]] if v == vid][0]
                    viol.append(('package-built-by-%d-jobs' % len(o), desc, '%s:dist is built by %s' % ('/'.join(st.getPackage().getStack()), o)))
            # roots are built
            roots_built = [j for j in jobs.values() if j.isRoot()]
            if not roots_built:
                viol.append(('root-not-built', desc, 'no root job'))
            if 'top' not in jobs or not any('/'.join(st.getPackage().getStack()) == 'top' for st in jobs['top'].getPackageSteps()):
                viol.append(('root-not-built', desc, 'package top is not built by any job'))
            # closure: every dependency (arguments, tools, sandbox) of every built step is built by a job that is this job or an upstream job
            for name, lst in held.items():
                up = jobs[name].getUpstreamJobs()
                for vid, st in lst:
                    for dep in st.getAllDepSteps():
                        if not dep.isValid(): continue
                        dv = getJenkinsVariantId(dep) + dep.getLabel().encode()
                        do = owner.get(dv)
                        where = '%s:%s -> %s:%s' % ('/'.join(st.getPackage().getStack()), st.getLabel(), '/'.join(dep.getPackage().getStack()), dep.getLabel())
                        if not do:
                            viol.append(('dependency-built-by-0-jobs', desc, 'job %s: %s is built by no job' % (name, where)))
                        elif name not in do and not (set(do) & set(up)):
                            viol.append(('missing-upstream-job', desc, 'job %s: %s: dependency is built by %s which is not upstream' % (name, where, do)))
            for name, j in jobs.items():
                if name in j.getUpstreamJobs():
                    viol.append(('job-depends-on-itself', desc, name))
                for u in j.getUpstreamJobs():
                    if u not in jobs: viol.append(('unknown-upstream-job', desc, '%s -> %s' % (name, u)))
            reach = {vid: st for lst in held.values() for vid, st in lst}
            # spec round trip
            for name, j in jobs.items():
                try:
                    ir = PartialIR.fromData(decode_spec(j.dumpJobSpec()))
                    got = {}
                    for s in ir.getAllSteps():
                        if s.partial: continue
                        got[getJenkinsVariantId(s) + s.getLabel().encode()] = s
                    live = [(vid, st) for vid, st in reach.items() if name in owner.get(vid, [])]
                    for vid, st in live:
                        s = got.get(vid)
                        if s is None:
                            viol.append(('spec-misses-step', desc, 'job %s spec has no full dump of %s:%s' % (name, '/'.join(st.getPackage().getStack()), st.getLabel())))
                            continue
                        L = ExecutableStep.fromStep(st, LazyIR)
                        cmp = [('variant-id', L.getVariantId(), s.getVariantId()), ('workspace', L.getWorkspacePath(), s.getWorkspacePath()),
                               ('digest-script', L.getDigestScript(), s.getDigestScript()), ('env', sorted(L.getEnv().items()), sorted(s.getEnv().items())),
                               ('tools', [(n, t.getPath(), t.getLibs(), t.getStep().getVariantId()) for n, t in sorted(L.getTools().items())],
                                [(n, t.getPath(), t.getLibs(), t.getStep().getVariantId()) for n, t in sorted(s.getTools().items())]),
                               ('args', [(a.getVariantId(), a.getWorkspacePath()) for a in L.getArguments() if a.isValid()],
                                [(a.getVariantId(), a.getWorkspacePath()) for a in s.getArguments() if a.isValid()]),
                               ('sandbox', L.getSandbox() and L.getSandbox().getStep().getVariantId(), s.getSandbox() and s.getSandbox().getStep().getVariantId())]
                        if not st.isCheckoutStep():
                            cmp.append(('script', (L.getSetupScript(), L.getMainScript()), (s.getSetupScript(), s.getMainScript())))
                            b1, b2 = build_ids([L]), build_ids([s])
                            cmp.append(('build-id', b1, b2))
                        for what, a, b in cmp:
                            if a != b:
                                viol.append(('spec-differs:' + what, desc, 'job %s step %s:%s: %s of the job spec differs from the project' % (name, '/'.join(st.getPackage().getStack()), st.getLabel(), what)))
                except BobError as e:
                    viol.append(('spec-roundtrip-fails', desc, str(e)[:150]))
            # names
            disp = {}
            for name, j in jobs.items():
                for st in j.getPackageSteps():
                    pass
    except Exception as e:
        import traceback
        viol.append(('internal-exception:' + type(e).__name__, desc, traceback.format_exc()[-400:]))
    finally:
        bob.state.finalize()
        shutil.rmtree(d, ignore_errors=True)
    seen = {}
    for v in viol: seen.setdefault(v[0], v)
    return idx, njobs, nsteps, list(seen.values())


def run(ctx):
    quick = ctx.tier == 'quick'
    jobs = []
    cfgs = []
    R = 2
    for V, edges in projects(2, 4 if quick else 4):
        rootsets = [[V[-1]], [V[-1], V[-2]], V]
        for roots in rootsets:
            for isolate in (None, '^r1-a$', '.*'):
                sb = any(k == 'sandbox' for _, k in edges)
                for sd in ((False, True) if (sb or not quick) else (False,)):
                    jobs.append((len(jobs), 2, edges, roots, isolate, sd, sb))
    n2 = len(jobs)
    if not quick or True:
        cnt = 0
        for V, edges in projects(3, 2 if quick else 3):
            cnt += 1
            if quick and cnt % 4: continue
            for roots in ([V[-1], V[-2]], V):
                for isolate in ((None,) if quick else (None, '-a$')):
                    sb = any(k == 'sandbox' for _, k in edges)
                    jobs.append((len(jobs), 3, edges, roots, isolate, bool(cnt & 1) and sb, sb))
    ctx.log('%d projects (%d with 2 recipes x 2 variants, %d with 3 x 2)' % (len(jobs), n2, len(jobs) - n2))
    tj = ts = 0
    for idx, nj, ns, viols in runner.pmap_unordered(check_project, jobs, chunksize=8):
        tj += nj; ts += ns
        for key, desc, what in viols:
            ctx.violation(key, desc + ': ' + what, dict(desc=desc))
    ctx.log('%d jobs generated, %d reachable steps checked' % (tj, ts))
    return ctx.finish(dict(
        states=len(jobs), transitions=ts, traces_validated_against_impl=len(jobs), evaluations=ts, distinct_nontrivial=tj,
        rule='states = generated projects x root set x isolate pattern x shortdescription, each run through the real genJenkinsJobs on a real BobState; '
             'evaluations = reachable steps checked (ownership, upstream jobs, job-spec round trip); non-trivial = jobs generated',
        exhaustive=True, samples=[dict(R=2, edges=[['r1-b', 'tool', 'r2-a'], ['r2-a', 'dep', 'r1-a']], roots=['r2-b', 'r1-b'], isolate=None)],
        bounds=dict(two_recipes='all graphs with <=4 cross edges x {dep, tool, sandbox} x 3 root sets x 3 isolate patterns',
                    three_recipes='graphs with <=%d cross edges%s' % (2 if quick else 3, ' (every 4th)' if quick else ''))),
        assumptions=['no Jenkins server: job generation, build order and job spec only', 'Build-Ids with harness supplied source hashes, fixed platform tag'])


def replay(ctx, body):
    print(body['replay'])
    return 0
