"""C01 - incremental build equals clean build.

Engine E1 on world W1 (mc/w1.py): every history of <=d single-feature edits (12 toggles: script
text, class setup text, variable value, membership in buildVars, dependency add/remove,
re-parameterised dependency, provided variable, tool path, source file modify, source file
add/delete, -D define, default.yaml value; toggling twice = reverting), each followed by a real
incremental `bob dev` / `bob build` (with and without -j) in one persistent workspace.
Invariants in every state: (I1) the result tree equals that of a clean build of the same
feature vector in an empty directory - scripts are content revealing, so any stale input of any
package shows in the root result; (I2) an immediately repeated build executes no build or
package step and no deterministic checkout; (I3) exit status 0.
"""
import os, sys, shutil, itertools
from .. import runner, e1, w1

LEVEL = 'model_checking'
MODES = {
    'dev': ['dev', 'root'],
    'dev-j4': ['dev', '-j', '4', 'root'],
    'build': ['build', 'root'],
    'build-j4': ['build', '-j', '4', 'root'],
}


def vec_key(v):
    return tuple(v.get(f, 0) for f in w1.FEATURES + w1.EXTRA)


def apply(hist):
    v = w1.zero()
    for a in hist: v[a] ^= 1
    return v


def build(D, v, mode, env, log):
    open(log, 'w').close()
    dl = os.path.join(os.path.dirname(D.d), 'dl')
    if not os.path.isdir(dl): w1.downloads(dl)
    rc, out = e1.run_bob(D.d, MODES[mode] + w1.args(v, dl), env)
    return rc, out, e1.read_log(log)


def clean_build(job):
    key, mode = job
    v = dict(zip(w1.FEATURES + w1.EXTRA, key))
    base = os.path.join(runner.scratch(), 'c01clean-%d' % os.getpid())
    shutil.rmtree(base, ignore_errors=True)
    os.makedirs(base + '/mark')
    D = e1.Dir(base + '/proj'); D.reset(); D.sync(w1.files(v))
    env = {'VERIF_LOG': base + '/log', 'VERIF_MARK': base + '/mark'}
    rc, out, log = build(D, v, mode, env, base + '/log')
    res = None
    if rc == 0:
        rp = e1.result_path(out)
        res = e1.tree_canon(os.path.join(D.d, rp[0])) if rp else None
    shutil.rmtree(base, ignore_errors=True)
    return (key, mode), (rc, res, out[-400:] if rc else '')


_base_snap = {}


def history_worker(job):
    hist, mode, ref, full = job
    base = os.path.join(runner.scratch(), 'c01-%d' % os.getpid())
    env = {'VERIF_LOG': base + '/log', 'VERIF_MARK': base + '/mark'}
    proj = base + '/proj'
    snap = base + '/snap-' + mode
    D = e1.Dir(proj)
    viol = []
    nrun = 0
    if _base_snap.get(mode) != snap or not os.path.isdir(snap):
        shutil.rmtree(base, ignore_errors=True)
        os.makedirs(base + '/mark')
        D.reset(); D.sync(w1.files(w1.zero()))
        rc, out, log = build(D, w1.zero(), mode, env, base + '/log')
        nrun += 1
        if rc != 0:
            return hist, mode, nrun, [('base-build-fails', list(hist), out[-300:])], 0
        e1.snapshot(proj, snap)
        _base_snap.clear(); _base_snap[mode] = snap
    e1.restore(snap, proj)
    D.files = w1.files(w1.zero())
    D.clock += 10**12           # later than everything in the snapshot
    v = w1.zero()
    nontrivial = 0
    for i, a in enumerate(hist):
        v[a] ^= 1
        D.sync(w1.files(v))
        rc, out, log = build(D, v, mode, env, base + '/log')
        nrun += 1
        h = list(hist[:i + 1])
        if rc != 0:
            viol.append(('incremental-build-fails:' + a, h, 'exit %d: %s' % (rc, out[-300:]))); break
        if not full and i < len(hist) - 1:
            continue        # intermediate states of longer histories are checked as shorter histories
        rp = e1.result_path(out)
        got = e1.tree_canon(os.path.join(proj, rp[0])) if rp else None
        want = ref[(vec_key(v), mode.split('-')[0])]
        executed = [l for l in log if l.endswith((' build', ' package'))]
        if executed and len(executed) < 10: nontrivial += 1
        if got != want[1]:
            viol.append(('incremental-differs-from-clean:after-' + a, h, 'result of the incremental %s differs from the clean build: %s' % (mode, _diff(got, want[1]))))
            break
        if not full and len(hist) > 1:
            continue        # the repeat run is exercised after every single edit and in thorough mode everywhere
        rc2, out2, log2 = build(D, v, mode, env, base + '/log')
        nrun += 1
        redone = [l for l in log2 if l.endswith((' build', ' package')) or l == 'lib2 checkout']
        if rc2 != 0:
            viol.append(('repeated-build-fails:' + a, h, out2[-300:])); break
        if redone:
            viol.append(('repeated-build-reexecutes:after-' + a, h, 'an immediately repeated %s re-executed %s' % (mode, redone))); break
    return hist, mode, nrun, viol, nontrivial


def _diff(a, b):
    if a is None or b is None: return 'missing result'
    da = {x[1]: x for x in a if len(x) > 2}
    db = {x[1]: x for x in b if len(x) > 2}
    for k in sorted(set(da) | set(db)):
        if da.get(k) != db.get(k):
            def text(e):
                if e is None: return ['<absent>']
                return ['<symlink to %s>' % e[2]] if e[0] == 'l' else e[3].splitlines()
            la, lb = text(da.get(k)), text(db.get(k))
            d = [(x, y) for x, y in itertools.zip_longest(la, lb) if x != y][:3]
            return '%s: %s' % (k, d)
    return 'tree structure'


def run(ctx):
    quick = ctx.tier == 'quick'
    plan = {'dev': 2, 'build': 1, 'dev-j4': 1, 'build-j4': 0} if quick else {'dev': 3, 'build': 2, 'dev-j4': 2, 'build-j4': 1}
    if ctx.opts.get('depth'): plan = {'dev': int(ctx.opts['depth'])}
    feats = w1.FEATURES
    jobs, vecs = [], set()
    sharp = ['libscript', 'invars', 'lib2', 'reparam', 'provide', 'toolpath', 'srcmod', 'twovar', 'coscript']
    for mode, d in plan.items():
        if d <= 0: continue
        for L in range(1, d + 1):
            for h in itertools.product(feats, repeat=L):
                if quick and L == 2 and not ((h[0] in sharp and h[1] in sharp) or h[0] == h[1]): continue
                # thorough: the full product at depth 2 in develop mode; sharp pairs in the other modes; depth 3 over four features
                if not quick and L == 2 and mode != 'dev' and not ((h[0] in sharp and h[1] in sharp) or h[0] == h[1]): continue
                if not quick and L == 3 and not set(h) <= {'libscript', 'lib2', 'reparam', 'twovar'}: continue
                jobs.append((h, mode))
                vecs.add((vec_key(apply(h)), mode.split('-')[0]))
    ctx.log('%d histories (%s), %d distinct (feature vector, mode) clean builds' % (len(jobs), plan, len(vecs)))
    ref = dict(runner.pmap(clean_build, sorted(vecs)))
    for (key, mode), (rc, res, out) in ref.items():
        if rc != 0 or res is None:
            ctx.violation('clean-build-fails', 'vector %s mode %s: %s' % (dict(zip(feats, key)), mode, out), dict(vector=list(key), mode=mode))
    nrun = len(ref)
    nontriv = 0
    seed_order = sorted(jobs, key=lambda j: (j[1], j[0])) if not ctx.seed else sorted(jobs, key=lambda j: (j[1], hash((ctx.seed, j))))
    for hist, mode, n, viol, nt in runner.pmap_unordered(history_worker, [(h, m, ref, not quick) for h, m in seed_order], chunksize=4):
        nrun += n; nontriv += nt
        for key, h, what in viol:
            ctx.violation(key + ':' + mode.split('-')[0], 'mode %s history %s: %s' % (mode, h, what), dict(history=h, mode=mode))
    ctx.log('%d real bob invocations, %d states with a partial rebuild (some steps executed, some skipped)' % (nrun, nontriv))
    return ctx.finish(dict(
        states=len(vecs) + sum(len(h) for h, m in jobs), transitions=nrun, traces_validated_against_impl=len(jobs), evaluations=nrun, distinct_nontrivial=nontriv,
        rule='one history = edits applied one by one to a persistent workspace, each followed by a real incremental bob run (result compared with the clean build of the '
             'same feature vector) and an immediate repeat (must execute nothing); non-trivial = states where the incremental run executed some but not all steps',
        exhaustive=True, samples=[dict(mode='dev', history=['srcmod', 'srcmod']), dict(mode='build', history=['lib2'])],
        bounds=dict(features=feats, depth_per_mode=plan, quick_pairs='pairs over %s plus every revert pair' % sharp if quick else 'dev: all pairs, depth 3 over libscript/lib2/reparam/twovar; other modes: pairs over %s' % sharp), histories=len(jobs), clean_builds=len(vecs)),
        assumptions=['step scripts are deterministic and content revealing by construction', 'every edit changes the stat data of the edited file (logical mtime clock)',
                     'the import SCM is non-deterministic by design: its checkout may re-run on a repeated build; the deterministic checkoutScript of lib2 may not'])


def replay(ctx, body):
    r = body['replay']
    mode = r['mode']
    hist = tuple(r['history'])
    vecs = {(vec_key(apply(hist[:i])), mode.split('-')[0]) for i in range(1, len(hist) + 1)}
    ref = dict(clean_build(v) for v in vecs)
    print(history_worker((hist, mode, ref, True)))
    return 0
