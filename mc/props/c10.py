"""C10 - workspace state commits atomically and is single-writer.

Part 1 (engine E4, crash images): every history of <= N calls from the mutator alphabet of
_BobState (with invocation boundaries = finalize + new instance) is run on the real class in a
scratch directory with the file-system operations traced.  For every prefix of the trace and
every torn variant of every unsynced file the real start-up code is run on the image:
  * it must not raise,
  * the state read back through the public getters must equal exactly one snapshot saved in
    the history, not older than the one current at the last completed finalize(),
  * finalize() + a second start must load the same snapshot again, and one more update +
    finalize() + start must load that update (nothing left behind by the recovery).
Part 2 (explicit-state search, lock): all action sequences of up to 3 instances
(start / update / finalize) up to a depth; a start while another instance is alive must be
refused with ParseError, a start with none alive must succeed, never two alive.
"""
import os, sys, itertools, shutil, hashlib, collections
from .. import runner, e4

LEVEL = 'model_checking'
A, B, Z = 'w/a', 'w/b', 'w/z'
DIG = [b'd1', b'd2']


def alphabet():
    from bob.state import JenkinsConfig

    def jj(s):
        if 'j' in s.getAllJenkins():
            s.setJenkinsJobConfig('j', 'job', {'x': 1}) if 'job' in s.getJenkinsAllJobs('j') else s.addJenkinsJob('j', 'job', {'x': 0})

    def async2(s):
        s.setAsynchronous()
        s.setResultHash(A, b'7'); s.setVariantId(A, b'7')
        s.setSynchronous()

    def dsm_1(s):
        # the source-directory pattern of the builder's checkout step: one dict is stored, mutated and stored again
        s._verif_d = {'x': (b'1', None), 'y': (b'2', None)}
        s.setDirectoryState(A, s._verif_d)

    def dsm_2(s):
        d = getattr(s, '_verif_d', None)
        if d is None: d = s._verif_d = {'x': (b'1', None), 'y': (b'2', None)}
        d.pop('x', None)
        s.setDirectoryState(A, d)

    return [
        ('rh_a1', lambda s: s.setResultHash(A, b'1')),
        ('rh_a2', lambda s: s.setResultHash(A, b'2')),
        ('rh_b1', lambda s: s.setResultHash(B, b'1')),
        ('ih_a1', lambda s: s.setInputHashes(A, [b'1'])),
        ('ih_a2', lambda s: s.setInputHashes(A, [b'2', b'3'])),
        ('dih_a', lambda s: s.delInputHashes(A)),
        ('ds_a1', lambda s: s.setDirectoryState(A, b'1')),
        ('ds_b2', lambda s: s.setDirectoryState(B, [b'2'])),
        ('dsm_1', dsm_1),
        ('dsm_2', dsm_2),
        ('rw_a0', lambda s: s.resetWorkspaceState(A, None)),
        ('rw_a9', lambda s: s.resetWorkspaceState(A, b'9')),
        ('vi_a1', lambda s: s.setVariantId(A, b'1')),
        ('vi_a2', lambda s: s.setVariantId(A, b'2')),
        ('nd_1', lambda s: s.getByNameDirectory('base', b'd1', False)),
        ('nd_2', lambda s: s.getByNameDirectory('base', b'd2', True)),
        ('at_a', lambda s: s.setAtticDirectoryState(A, {'k': 1})),
        ('dat_a', lambda s: s.delAtticDirectoryState(A)),
        ('ls', lambda s: s.setLayerState('L', b'1')),
        ('dls', lambda s: s.delLayerState('L')),
        ('jk', lambda s: s.addJenkins('j', JenkinsConfig('http://h/p'))),
        ('jj', jj),
        ('bs_1', lambda s: s.setBuildState({'wasRun': {A: (b'1', False)}, 'predictedBuidId': {}})),
        ('bs_2', lambda s: s.setBuildState({'wasRun': {}, 'predictedBuidId': {A: b'2'}})),
        ('sp_a', lambda s: s.setStoragePath(A, 's/a')),
        ('async2', async2),
        ('BND', None),
        ('KILL', None),
    ]


SMALL = ['rh_a1', 'rh_a2', 'ih_a1', 'rw_a0', 'nd_1', 'jk', 'jj', 'async2', 'dih_a', 'dsm_1', 'dsm_2', 'BND', 'KILL']


def observe(s):
    dirs = sorted(s.getDirectories())
    att = sorted(s.getAtticDirectories())
    lay = sorted(s.getLayers())
    jen = sorted(s.getAllJenkins())
    o = dict(
        names=sorted(s.getAllNameDirectores()), ex=[s.getExistingByNameDirectory(d) for d in DIG],
        res=[s.getResultHash(p) for p in (A, B, Z)], inp=[s.getInputHashes(p) for p in (A, B, Z)],
        dirs=[(p, s.getDirectoryState(p, False)) for p in dirs], var=[s.getVariantId(p) for p in (A, B, Z)],
        stor=[s.getStoragePath(p) for p in (A, B, Z)], attic=[(p, s.getAtticDirectoryState(p)) for p in att],
        layers=[(p, s.getLayerState(p)) for p in lay],
        jenkins=[(n, sorted(s.getJenkinsConfig(n).dump().items(), key=repr), sorted(s.getJenkinsAllJobs(n)),
                  [s.getJenkinsJobConfig(n, j) for j in sorted(s.getJenkinsAllJobs(n))]) for n in jen],
        build=s.getBuildState())
    return repr(sorted(o.items()))


_tr = None
_dirn = 0


def setup_worker():
    global _tr
    import bob.state
    if _tr is None:
        _tr = e4.Trace()
        e4.install(bob.state, _tr)
        # warnings of the recovery path go to stderr/stdout: silence them
        bob.state.print = lambda *a, **k: None
    return bob.state


def fresh_dir():
    global _dirn
    _dirn += 1
    d = os.path.join(runner.scratch(), 'c10-%d' % (_dirn % 4))
    shutil.rmtree(d, ignore_errors=True)
    os.makedirs(d)
    os.chdir(d)
    return d


def run_history(hist, ops):
    """Run the history on the real class; returns (trace ops, snapshots, save->snapshot index,
    list of (trace position after finalize returned, snapshot index))."""
    st = setup_worker()
    fresh_dir()
    _tr.ops = []; _tr.enabled = True; _tr.fds = {}
    s = st._BobState()
    snaps = [observe(s)]
    saves = []              # k-th rename to .new -> snapshot index (or None if unknown)
    finals = []
    unsaved = []
    for name in hist:
        before = len(_tr.ops)
        if name == 'BND':
            s.finalize()
            finals.append((len(_tr.ops), len(snaps) - 1))
            s = st._BobState()
            continue
        if name == 'KILL':
            # the process is killed (no finalize; what it wrote stays in the page cache, synced or not), the user removes the
            # stale lock as documented and starts Bob again: the start-up recovery is part of the traced history, so a later
            # crash (power loss) meets whatever that recovery left unsynced
            s = restart_after_kill(st, s)
            if observe(s) != snaps[-1]: snaps.append(observe(s))
            continue
        ops[name](s)
        n = sum(1 for op in _tr.ops[before:] if op[0] == 'rename' and op[2].endswith('.pickle.new'))
        if n:
            snaps.append(observe(s))
            saves += [None] * (n - 1) + [len(snaps) - 1]
        else:
            # no save: the observable state must not have changed either
            if observe(s) != snaps[-1]:
                unsaved.append(name)
                snaps.append(observe(s))
    trace = list(_tr.ops)
    _tr.enabled = False
    try:
        s.finalize()
    except Exception:
        pass
    return trace, snaps, saves, finals, unsaved


def restart_after_kill(st, s):
    del s
    try:
        os.unlink('.bob-state.lock')
        _tr.add('unlink', '.bob-state.lock')
    except FileNotFoundError:
        pass
    return st._BobState()


_cache = {}


def recover(img):
    """Run the real start-up on a crash image. Returns (obs or None, problem or None)."""
    key = tuple(sorted(img.items()))
    r = _cache.get(key)
    if r is not None:
        return r
    st = setup_worker()
    _tr.enabled = False
    fresh_dir()
    for n, b in img.items():
        if n == '.bob-state.lock': continue        # documented: the user removes a stale lock
        with open(n, 'wb') as f: f.write(b)
    obs1 = problem = None
    try:
        try:
            s = st._BobState()
        except BaseException as e:
            raise RuntimeError('start-raises:%s: %s' % (type(e).__name__, str(e)[:80]))
        obs1 = observe(s)
        try:
            s.finalize()
            s = st._BobState()
        except BaseException as e:
            raise RuntimeError('second-start-raises:%s: %s' % (type(e).__name__, str(e)[:80]))
        if observe(s) != obs1:
            raise RuntimeError('second-start-loads-other-state')
        try:
            s.setResultHash(Z, b'z'); s.finalize()
            s = st._BobState()
            ok = (s.getResultHash(Z) == b'z')
            s.resetWorkspaceState(Z, None)
            ok = ok and observe(s) == obs1
            s.finalize()
        except BaseException as e:
            raise RuntimeError('third-start-raises:%s: %s' % (type(e).__name__, str(e)[:80]))
        if not ok:
            raise RuntimeError('update-after-recovery-lost')
    except RuntimeError as e:
        problem = str(e)
    if len(_cache) > 400000: _cache.clear()
    _cache[key] = (obs1, problem)
    return obs1, problem


_state_cache = {}


def explore_state(ops, pos, bitflips, stride):
    """All crash images of the model state after ops[:pos] -> {(obs, problem): (first desc, n)}"""
    names = e4.simulate(ops, pos)
    key = tuple(sorted((n, o.data, o.synced, o.durable) for n, o in names.items()))
    r = _state_cache.get(key)
    if r is not None:
        return r, 0
    res = {}
    n = 0
    for desc, img in e4.images(ops, pos, bitflips, stride, ignore=('.bob-state.lock',)):
        if desc.startswith('.bob-state.pickle.new.dirty:') and not desc.endswith(('trunc@0', 'durable-old')):
            continue    # the in-flight file is never read by any recovery path; only intact/empty are tried
        n += 1
        out = recover(img)
        if out not in res: res[out] = [desc, 0]
        res[out][1] += 1
    if len(_state_cache) > 50000: _state_cache.clear()
    _state_cache[key] = res
    return res, n


def fault_runs(hist, ops):
    """I/O errors instead of crashes: the k-th write/close/fsync/rename of the history fails (ENOSPC, a close leaves half of
    the buffered data behind), Bob reports the error and the invocation ends the normal way (finalize).  The next start must
    load, without error, a snapshot of the history that is not older than the last completed finalize."""
    st = setup_worker()
    from bob.errors import BobError
    out = []
    k = 0
    while True:
        k += 1
        fresh_dir()
        _tr.ops = []; _tr.enabled = True; _tr.fds = {}; _tr.fault = k; _tr.nsite = 0; _tr.fired = None
        try:
            s = st._BobState()
            snaps = [observe(s)]
            lo = 0
            err = None
            for name in hist:
                try:
                    if name == 'BND':
                        before = _tr.fired
                        s.finalize()
                        # a commit that fails with an I/O error is reported ("Warning: cannot commit workspace state") and the
                        # changes of that invocation are dropped: such an invocation did not complete
                        if not (before is None and _tr.fired is not None): lo = len(snaps) - 1
                        s = st._BobState()
                    elif name == 'KILL':
                        s = restart_after_kill(st, s)
                        o = observe(s)
                        if o not in snaps: snaps.append(o)
                    else:
                        ops[name](s)
                        o = observe(s)
                        if o != snaps[-1]: snaps.append(o)
                except BobError as e:
                    err = ('reported', name); break
                except BaseException as e:
                    err = ('internal', name, type(e).__name__, str(e)[:100]); break
            fired = _tr.fired
        finally:
            _tr.fault = None; _tr.enabled = False
        if fired is None: break             # k is beyond the last faultable operation of this history
        if err and err[0] == 'internal':
            out.append(('io-error:internal-exception:%s' % err[2], hist, k, fired, 'I/O error at %s #%d in %s: %s: %s' % (fired, k, err[1], err[2], err[3])))
            continue
        if err:
            # the failed update may or may not be part of what survives
            try:
                o = observe(s)
                if o not in snaps: snaps.append(o)
            except BaseException:
                pass
        try:
            if getattr(s, '_BobState__asynchronous', 0) == 0 and not getattr(s, '_BobState__dirty', False): s.finalize()
        except BaseException as e:
            out.append(('io-error:finalize-raises:%s' % type(e).__name__, hist, k, fired, str(e)[:100])); continue
        img = {}
        for n in os.listdir('.'):
            if n.startswith('.bob-state') and os.path.isfile(n): img[n] = open(n, 'rb').read()
        obs, problem = recover(img)
        if problem:
            out.append(('io-error:%s:%s' % (problem.split(':')[0], fired), hist, k, fired, 'after an I/O error at %s #%d (reported=%s) and a normal end of the invocation: %s' % (fired, k, bool(err), problem)))
        elif obs not in snaps[lo:]:
            what = 'older-than-last-finalize' if obs in snaps else 'mixture-or-unknown-state'
            out.append(('io-error:%s:%s' % (what, fired), hist, k, fired, 'after an I/O error at %s #%d the next start loads a state that is %s' % (fired, k, what)))
    return k - 1, out


def check_history(job):
    hist, bitflips, stride = job
    ops = dict(alphabet())
    trace, snaps, saves, finals, unsaved = run_history(hist, ops)
    viol = []
    for name in unsaved:
        viol.append(('update-not-saved:' + name.split('_')[0], hist, 0, name, 'the getters show the update of %s but no state file was written' % name))
    nimg = npos = 0
    outcomes = set()
    for pos in range(len(trace) + 1):
        if pos < len(trace) and trace[pos][0] in ('mark', 'close'):
            pass
        k = sum(1 for op in trace[:pos] if op[0] == 'rename' and op[2].endswith('.pickle.new'))
        cand = [0] + [x for x in saves[:k]]
        lo = 0
        for fpos, sidx in finals:
            if fpos <= pos: lo = sidx
        hi = cand[-1] if cand[-1] is not None else len(snaps) - 1
        unknown = None in cand
        allowed = {snaps[i] for i in cand if i is not None and i >= lo}
        res, n = explore_state(trace, pos, bitflips, stride)
        nimg += n; npos += 1
        for (obs, problem), (desc, cnt) in res.items():
            outcomes.add('problem' if problem else ('latest' if obs == snaps[hi] else 'older'))
            if problem:
                viol.append(('crash:' + problem.split(':')[0] + ':' + desc.split(':')[0].split('@')[0],
                             hist, pos, desc, problem))
            elif obs not in allowed:
                if unknown: continue
                what = 'older-than-last-finalize' if obs in snaps else 'mixture-or-unknown-state'
                viol.append(('crash:%s:%s' % (what, desc.split(':')[0]), hist, pos, desc, what))
    nfault = 0
    if len(hist) <= 2 or stride == 1:
        nfault, fv = fault_runs(hist, ops)
        viol += fv
    return len(trace), npos, nimg + nfault, len(snaps), outcomes, viol[:10]


# ----------------------------------------------------------------------------- lock search
def lock_search(depth):
    """BFS over action sequences of 3 instances; state = the real objects, rebuilt by replaying
    the sequence on a fresh directory (live objects do not copy)."""
    st = setup_worker()
    from bob.errors import ParseError
    acts = [('start', i) for i in range(3)] + [('fin', i) for i in range(3)] + [('upd', i) for i in range(3)]
    seen = set()
    frontier = collections.deque([()])
    states = trans = 0
    viol = []
    samples = []

    def build(seq):
        fresh_dir()
        _tr.enabled = False
        inst = [None, None, None]
        problem = None
        for kind, i in seq:
            alive = [x for x in inst if x is not None]
            if kind == 'start':
                try:
                    x = st._BobState()
                    if alive: problem = 'second-instance-admitted'
                    inst[i] = x
                except ParseError as e:
                    if not alive: problem = 'start-refused-although-free:' + str(e.slogan)[:40]
                except BaseException as e:
                    problem = 'start-raises:' + type(e).__name__
            elif kind == 'fin':
                inst[i].finalize(); inst[i] = None
            elif kind == 'upd':
                inst[i].setResultHash(A, bytes([len(seq) % 250]))
            if problem: break
        canon = (tuple(x is not None for x in inst), tuple(sorted(f for f in os.listdir('.') if f.startswith('.bob-state'))))
        for x in inst:
            if x is not None:
                try: x.finalize()
                except BaseException: pass
        return canon, problem

    def enabled(canon):
        alive, files = canon
        for kind, i in acts:
            if kind == 'start' and not alive[i]: yield (kind, i)
            if kind in ('fin', 'upd') and alive[i]: yield (kind, i)

    c0, _ = build(())
    seen.add(c0)
    while frontier:
        seq = frontier.popleft()
        canon, _ = build(seq) if seq else (c0, None)
        if len(seq) >= depth: continue
        for a in enabled(canon):
            nseq = seq + (a,)
            c, problem = build(nseq)
            trans += 1
            if problem:
                viol.append(('lock:' + problem.split(':')[0], nseq, problem))
                continue
            if len(samples) < 3 and len(nseq) == depth: samples.append([list(x) for x in nseq])
            key = c
            if key not in seen:
                seen.add(key); frontier.append(nseq)
    return len(seen), trans, viol, samples


def _lock_job(depth):
    return lock_search(depth)


def histories(maxlen, names):
    for L in range(0, maxlen + 1):
        for h in itertools.product(names, repeat=L):
            # two boundaries in a row add nothing
            if any(h[i] == 'BND' and h[i + 1] == 'BND' for i in range(L - 1)): continue
            yield h


def run(ctx):
    quick = ctx.tier == 'quick'
    allnames = [n for n, _ in alphabet()]
    full_len = int(ctx.opts.get('len', 2 if quick else 3))
    small_len = int(ctx.opts.get('smalllen', 3 if quick else 4))
    lockdepth = int(ctx.opts.get('lockdepth', 6 if quick else 8))
    jobs = []
    seenh = set()
    for h in histories(full_len, allnames):
        seenh.add(h); jobs.append((h, (not quick) and len(h) <= 1, 1 if (len(h) <= 1 or not quick) else 8))
    for h in histories(small_len, SMALL):
        if h not in seenh:
            seenh.add(h); jobs.append((h, False, (32 if quick else 1) if len(h) <= 3 else 8))
    if ctx.seed:
        import random
        random.Random(ctx.seed).shuffle(jobs)
    ctx.log('%d histories (all of length<=%d over %d calls, all of length<=%d over %d calls)' % (
        len(jobs), full_len, len(allnames), small_len, len(SMALL)))
    tot_ops = tot_pos = tot_img = tot_snap = 0
    outcomes = set()
    for (tl, npos, nimg, nsn, oc, viol) in runner.pmap_unordered(check_history, jobs, chunksize=8):
        tot_ops += tl; tot_pos += npos; tot_img += nimg; tot_snap += nsn; outcomes |= oc
        for key, hist, pos, desc, what in viol:
            ctx.violation(key, 'history=%s crash after %d trace ops, image %s: %s' % (list(hist), pos, desc, what),
                          dict(part='crash', history=list(hist), pos=pos, image=desc))
    ctx.log('crash part: %d trace ops, %d crash positions, %d distinct crash images recovered, outcomes=%s' % (
        tot_ops, tot_pos, tot_img, sorted(outcomes)))
    ls, lt, lviol, lsamples = runner.pmap(_lock_job, [lockdepth], jobs=1)[0]
    for key, seq, problem in lviol:
        ctx.violation(key, 'actions=%s: %s' % (list(seq), problem), dict(part='lock', actions=[list(x) for x in seq]))
    ctx.log('lock part: %d states, %d transitions (depth<=%d, 3 instances)' % (ls, lt, lockdepth))
    return ctx.finish(dict(
        states=tot_pos + ls, transitions=tot_img + lt, traces_validated_against_impl=len(jobs) + lt,
        evaluations=tot_img + lt, distinct_nontrivial=tot_img,
        rule='states = crash positions (prefixes of the traced file-system operations of each history) + lock-search states; '
             'transitions = distinct crash images (position x torn variant of one unsynced file) on which the real start-up '
             'was run (3 starts each) + lock-search transitions; identical images/model states are recovered once (cache) and '
             'counted once per worker; distinct_nontrivial = distinct crash images recovered',
        exhaustive=True,
        samples=[dict(history=list(jobs[len(jobs) // 2][0]), note='every trace prefix x every truncation/zero-tail of unsynced files'),
                 dict(lock_actions=lsamples[:2])],
        bounds=dict(history_len_full_alphabet=full_len, alphabet=allnames, history_len_small_alphabet=small_len,
                    small_alphabet=SMALL, torn=('every truncation length and zero-filled tail from every offset for histories of length<=1; every 8th offset (plus the first 6 and last 9) for length 2, every 32nd for length 3' if quick else 'every truncation length and zero-filled tail from every offset up to length 3 (every 8th for length 4); every single-bit flip for histories of length<=1'), lock_depth=lockdepth),
        histories=len(jobs), crash_positions=tot_pos, crash_images=tot_img, distinct_outcomes=sorted(outcomes)),
        assumptions=['renames, unlinks and O_EXCL creates are atomic and ordered; only unsynced file data is lost/torn',
                     'Adler-32 is the integrity check: garblings that preserve it are out of scope; every enumerated one changes it',
                     'the user removes a stale .bob-state.lock before the next start (documented)',
                     'the sqlite build-id cache is not part of the statement and not modelled'])


def replay(ctx, body):
    r = body['replay']
    print('replay', r)
    if r['part'] == 'crash':
        ops = dict(alphabet())
        trace, snaps, saves, finals = run_history(tuple(r['history']), ops)
        for desc, img in e4.images(trace, r['pos'], True, 1, ignore=('.bob-state.lock',)):
            if desc == r['image']:
                print('image files:', {k: len(v) for k, v in img.items()})
                print('recovery:', recover(img))
                print('trace prefix:', [op[:2] if op[0] == 'write' else op for op in trace[:r['pos']]][-8:])
    else:
        print(lock_search.__doc__)
    return 0
