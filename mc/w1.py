"""World W1: root -> app -> {lib, lib2?}, class cls inherited by lib, tool package gen, import sources
src/lib/*, deterministic checkout scripts.  15 features, each a toggle."""
FEATURES = ['libscript', 'clssetup', 'var', 'invars', 'lib2', 'reparam', 'provide', 'toolpath', 'srcmod', 'srcadd', 'define', 'defval', 'twovar', 'urlsrc', 'coscript']
# features only C16 toggles (a third variant of lib; two recipes that produce identical packages); zero() includes them, the
# other checks never set them
EXTRA = ['threevar', 'twins', 'toolscript']      # toolscript: only W7/C07 (content of the strong tool changes, its path does not)

HELPERS = '''    reveal() {      # pure bash (process creation is the bottleneck of this sandbox)
        local d f line
        shopt -s globstar nullglob
        for d in "$@"; do
            [ -d "$d" ] || continue
            pushd "$d" > /dev/null
            for f in **/*; do
                [ -f "$f" ] || continue
                case "$f" in *.tar) echo "== ./$f (archive)"; continue;; esac
                echo "== ./$f"
                while IFS= read -r line || [ -n "$line" ]; do echo "$line"; done < "$f"
            done
            popd > /dev/null
        done
    }
    vlog() { echo "$1" >> "$VERIF_LOG"; }
    fault() {   # fault <step> [file]: driven by marker files, so recipe text and ids never change
        if [ -n "${VERIF_MARK:-}" ] && [ -e "$VERIF_MARK/fail-$1" ]; then echo partial > "${2:-result.txt}"; exit 1; fi
        if [ -n "${VERIF_MARK:-}" ] && [ -e "$VERIF_MARK/kill-$1" ]; then echo partial > "${2:-result.txt}"; kill -9 $PPID; sleep 2; fi
    }
'''


def zero():
    return {f: 0 for f in FEATURES + EXTRA}


def files(v):
    f = {}
    f['config.yaml'] = 'bobMinimumVersion: "0.25"\n'
    f['default.yaml'] = 'environment:\n    ENVV: "e%d"\nwhitelist: [VERIF_LOG, VERIF_MARK, VERIF_NONCE]\n' % v['defval']
    f['classes/base.yaml'] = ('checkoutSetup: |\n' + HELPERS + 'buildSetup: |\n' + HELPERS + 'packageSetup: |\n' + HELPERS)
    f['classes/cls.yaml'] = 'buildSetup: |\n    cls_fn() { echo "cls-setup-v%d"; }\n' % v['clssetup']
    f['recipes/root.yaml'] = ('root: True\ninherit: [base]\n'
                              'depends:\n    - name: gen\n      use: [tools]\n      forward: True\n    - app\n%s'
                              'environment:\n    VAR: "%s"\n'
                              'buildVars: [DEF]\n'
                              'buildScript: |\n    vlog "root build"\n    fault root-build\n    : > "witness-${DEF:-}"\n    { echo "root-build DEF=${DEF:-}"; reveal "${@:2}"; } > result.txt\n'
                              'packageVars: [DEF]\n'
                              'packageScript: |\n    vlog "root package"\n    fault root-package\n    { echo root-pkg; reveal "$1"; } > result.txt\n    ln -s "/nonexistent/release-${DEF:-}" "current-${DEF:-}"\n') % (
                                  ('    - name: lib\n      environment: {P: "y"}\n' if v['twovar'] else '') +
                                  ('    - via3\n' if v.get('threevar') else '') +
                                  ('    - alpha\n    - beta\n' if v.get('twins') else ''), 'ab'[v['var']])
    libvars = ['P'] + (['VAR'] if v['invars'] else [])
    f['recipes/lib.yaml'] = ('inherit: [base, cls]\n'
                             'checkoutSCM:\n    scm: import\n    url: src/lib\n'
                             'checkoutDeterministic: True\n'
                             'checkoutScript: |\n    vlog "lib checkout"\n    fault lib-checkout generated.txt\n    echo generated%s > generated.txt\n    touch -d @946684800 -- *.txt   # reproducible-build style timestamp clamping: edits keep size, mtime and inode\n'
                             'metaEnvironment:\n    LICENSE: "MIT"\n'
                             'buildVars: [%s]\n'
                             'buildTools: [gen]\n'
                             'buildScript: |\n    vlog "lib build"\n    fault lib-build\n    : > "witness-v%d-${VAR:-}-${P:-}"\n    { echo "lib-build-v%d VAR=${VAR:-} P=${P:-}"; cls_fn; gen; reveal "$@"; } > result.txt\n'
                             'packageScript: |\n    vlog "lib package"\n    fault lib-package\n    { echo lib-pkg; reveal "$1"; } > result.txt\n'
                             'provideVars:\n    PROVIDED: "prov-v%d"\n') % ('-v1' if v['coscript'] else '', ', '.join(libvars), v['libscript'], v['libscript'], v['provide'])
    deps = '    - name: lib\n      use: [result, environment]\n'
    if v['reparam']: deps += '      environment: {P: "x"}\n'
    if v['lib2']: deps += '    - lib2\n'
    f['recipes/app.yaml'] = ('inherit: [base]\ndepends:\n' + deps +
                             'buildVars: [PROVIDED]\n'
                             'buildScript: |\n    vlog "app build"\n    fault app-build\n    : > "witness-${PROVIDED:-}"\n    { echo "app-build PROVIDED=${PROVIDED:-}"; reveal "${@:2}"; } > result.txt\n'
                             'packageScript: |\n    vlog "app package"\n    { echo app-pkg; reveal "$1"; } > result.txt\n')
    import hashlib
    data = 'download-data-v%d\n' % v['urlsrc']
    f['recipes/dl.yaml'] = ('inherit: [base]\n'
                            'checkoutSCM:\n'
                            '    - scm: url\n      url: "file://${DLDIR}/data%d.txt"\n      digestSHA256: "%s"\n      extract: False\n'
                            '    - scm: url\n      url: "file://${DLDIR}/arch%d.tar"\n      digestSHA256: "%s"\n      dir: ar\n'
                            'buildScript: |\n    vlog "dl build"\n    { echo dl-build; reveal "$1"; } > result.txt\n'
                            'packageScript: |\n    vlog "dl package"\n    { echo dl-pkg; reveal "$1"; } > result.txt\n') % (
                                v['urlsrc'], hashlib.sha256(data.encode()).hexdigest(),
                                v['urlsrc'], hashlib.sha256(archive_bytes(v['urlsrc'])).hexdigest())
    f['recipes/lib2.yaml'] = ('inherit: [base]\ndepends: [dl]\ncheckoutDeterministic: True\n'
                              'checkoutScript: |\n    vlog "lib2 checkout"\n    fault lib2-checkout s.txt\n    echo lib2-src%s > s.txt\n'
                              'buildVars: [ENVV]\n'
                              'buildScript: |\n    vlog "lib2 build"\n    { echo "lib2-build ENVV=${ENVV:-} nonce=${VERIF_NONCE:-}"; reveal "$@"; } > result.txt\n'
                              'packageScript: |\n    vlog "lib2 package"\n    { echo lib2-pkg; reveal "$1"; } > result.txt\n') % ('-v1' if v['coscript'] else '')
    f['recipes/gen.yaml'] = ('inherit: [base]\n'
                             'buildScript: |\n    vlog "gen build"\n    mkdir -p bin bin2\n'
                             '    printf \'#!/bin/sh\\necho gen-from-bin\\n\' > bin/gen\n    printf \'#!/bin/sh\\necho gen-from-bin2\\n\' > bin2/gen\n    chmod +x bin/gen bin2/gen\n'
                             'packageScript: |\n    vlog "gen package"\n    cp -a "$1"/bin "$1"/bin2 .\n'
                             'provideTools:\n    gen: "bin%s"\n') % ('2' if v['toolpath'] else '')
    if v.get('threevar'):
        f['recipes/via3.yaml'] = ('inherit: [base]\ndepends:\n    - name: lib\n      environment: {P: "z"}\n'
                                  'buildScript: |\n    vlog "via3 build"\n    { echo via3-build; reveal "${@:2}"; } > result.txt\n'
                                  'packageScript: |\n    vlog "via3 package"\n    { echo via3-pkg; reveal "$1"; } > result.txt\n')
    if v.get('twins'):
        f['classes/twin.yaml'] = ('inherit: [base]\nbuildScript: |\n    vlog "twin build"\n    echo twin-build > result.txt\n'
                                  'packageScript: |\n    vlog "twin package"\n    { echo twin-pkg; reveal "$1"; } > result.txt\n')
        f['recipes/alpha.yaml'] = 'inherit: [twin]\n'
        f['recipes/beta.yaml'] = 'inherit: [twin]\n'
    f['src/lib/a.txt'] = 'source-a-v%d\n' % v['srcmod']
    if v['srcadd']: f['src/lib/b.txt'] = 'source-b\n'
    return f


def args(v, dldir='/nonexistent'):
    return ['-DDLDIR=' + dldir] + (['-DDEF=x'] if v['define'] else [])


def downloads(dldir, missing=()):
    """the 'remote' files of the url SCM live outside the project"""
    import os
    os.makedirs(dldir, exist_ok=True)
    for k in (0, 1):
        p = os.path.join(dldir, 'data%d.txt' % k)
        if k in missing:
            if os.path.exists(p): os.unlink(p)
        else:
            with open(p, 'w') as f: f.write('download-data-v%d\n' % k)
        p = os.path.join(dldir, 'arch%d.tar' % k)
        if k in missing:
            if os.path.exists(p): os.unlink(p)
        else:
            with open(p, 'wb') as f: f.write(archive_bytes(k))


ARCHIVE_MEMBERS = ['one.txt', 'sub/three.txt', 'two.txt']


def archive_bytes(k):
    """deterministic tar archive (fixed mtimes/owners) that the url SCM extracts into ar/"""
    import tarfile, io
    bio = io.BytesIO()
    with tarfile.open(fileobj=bio, mode='w', format=tarfile.GNU_FORMAT) as t:
        for n in ARCHIVE_MEMBERS:
            data = ('arch-v%d-%s\n' % (k, n)).encode()
            ti = tarfile.TarInfo(n); ti.size = len(data); ti.mtime = 1_500_000_000; ti.mode = 0o644
            t.addfile(ti, io.BytesIO(data))
    return bio.getvalue()
