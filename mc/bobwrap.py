"""Wrapper that starts the real Bob with fault hooks installed from the outside (no source change):
    VERIF_KILL_AT_SAVE=<n>:<before|after>   SIGKILL this process right before the n-th state write
                                            or right after its rename into place
    VERIF_COUNT_SAVES=<file>                write the number of state saves of this invocation
    VERIF_BEFORE_INSTALL=<shell command>    run once right before LocalShare.installSharedPackage (forced install race)
Everything must sit under the __main__ guard: Bob's forkserver re-imports the main module."""
import os, sys, signal


def main():
    sys.path.insert(0, os.environ['VERIF_PYM'])
    import bob.state as st
    spec = os.environ.get('VERIF_KILL_AT_SAVE')
    countfile = os.environ.get('VERIF_COUNT_SAVES')
    n = [0]
    orig = st._BobState._BobState__save

    def save(self):
        real = (self._BobState__asynchronous == 0)
        if real:
            n[0] += 1
            if countfile:
                with open(countfile, 'w') as f: f.write(str(n[0]))
            if spec:
                k, when = spec.split(':')
                if int(k) == n[0] and when == 'before':
                    os.kill(os.getpid(), signal.SIGKILL)
        r = orig(self)
        if real and spec:
            k, when = spec.split(':')
            if int(k) == n[0] and when == 'after':
                os.kill(os.getpid(), signal.SIGKILL)
        return r
    st._BobState._BobState__save = save
    before_install = os.environ.get('VERIF_BEFORE_INSTALL')
    if before_install:
        # a competing project installs the same shared package right before our installSharedPackage() runs (forced race)
        import subprocess
        import bob.share as sh
        orig_install = sh.LocalShare.installSharedPackage
        done = []

        def install(self, *a, **k):
            if not done:
                done.append(1)
                env = dict(os.environ); env.pop('VERIF_BEFORE_INSTALL', None)
                subprocess.run(before_install, shell=True, env=env, stdout=subprocess.DEVNULL, stderr=subprocess.DEVNULL)
            return orig_install(self, *a, **k)
        sh.LocalShare.installSharedPackage = install
    from bob.scripts import bob
    sys.argv = [os.path.join(os.environ['VERIF_REPO_DIR'], 'bob')] + sys.argv[1:]
    sys.exit(bob(os.path.join(os.environ['VERIF_REPO_DIR'], 'bob')))


if __name__ == '__main__':
    main()
