"""Wrapper that starts the real Bob with fault hooks installed from the outside (no source change):
    VERIF_KILL_AT_SAVE=<n>:<before|after>   SIGKILL this process right before the n-th state write
                                            or right after its rename into place
    VERIF_COUNT_SAVES=<file>                write the number of state saves of this invocation
Everything must sit under the __main__ guard: Bob's forkserver re-imports the main module."""
import os, sys, signal


def main():
    sys.path.insert(0, os.environ['VERIF_PYM'])
    import bob.state as st
    spec = os.environ.get('VERIF_KILL_AT_SAVE')
    countfile = os.environ.get('VERIF_COUNT_SAVES')
    n = [0]
    orig = st._BobState._BobState__save

    def save(self):
        real = (self._BobState__asynchronous == 0)
        if real:
            n[0] += 1
            if countfile:
                with open(countfile, 'w') as f: f.write(str(n[0]))
            if spec:
                k, when = spec.split(':')
                if int(k) == n[0] and when == 'before':
                    os.kill(os.getpid(), signal.SIGKILL)
        r = orig(self)
        if real and spec:
            k, when = spec.split(':')
            if int(k) == n[0] and when == 'after':
                os.kill(os.getpid(), signal.SIGKILL)
        return r
    st._BobState._BobState__save = save
    from bob.scripts import bob
    sys.argv = [os.path.join(os.environ['VERIF_REPO_DIR'], 'bob')] + sys.argv[1:]
    sys.exit(bob(os.path.join(os.environ['VERIF_REPO_DIR'], 'bob')))


if __name__ == '__main__':
    main()
