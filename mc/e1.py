"""E1 - history explorer over real `bob` invocations ("BobWorld").

A world is a parametrised project (a feature vector rendered deterministically into files).
Actions edit one feature (every feature is a toggle or a cycle, so reverting is in the alphabet)
and/or run the real Bob CLI in a persistent directory.  Step scripts are content revealing: each
writes a result that is a pure function of everything it observes (declared variables, tool
output, all files of all arguments), so a stale input anywhere shows in the final result; they
also append start lines to $VERIF_LOG (a whitelisted host variable, not part of any id).
The differential oracle is a clean build of the same feature vector in an empty directory.
"""
import os, sys, subprocess, shutil, stat, hashlib, signal, time, json
from . import runner

BOB = None


def bob_cmd():
    return ['/venv/bin/python', os.path.join(runner.REPO, 'bob')]


BASE_ENV = {'PATH': '/usr/local/bin:/usr/bin:/bin', 'HOME': '/root', 'LANG': 'C.UTF-8', 'TERM': 'dumb', 'PYTHONHASHSEED': '0',
            'PYTHONDONTWRITEBYTECODE': '1'}


def run_bob(cwd, args, env=None, timeout=300, wrapper=None):
    """One real Bob invocation in its own session; leftovers of its process group are killed afterwards."""
    e = dict(BASE_ENV)
    e['PYTHONPATH'] = runner.PYM
    e['XDG_CONFIG_HOME'] = os.path.join(os.path.dirname(cwd), 'xdg')
    if env: e.update(env)
    cmd = (wrapper or bob_cmd()) + list(args)
    # output goes to a file: orphans of a killed Bob (forkserver, resource tracker) keep a pipe open forever
    import tempfile
    with tempfile.TemporaryFile() as of:
        p = subprocess.Popen(cmd, cwd=cwd, env=e, stdin=subprocess.DEVNULL, stdout=of, stderr=subprocess.STDOUT, start_new_session=True)
        try:
            rc = p.wait(timeout=timeout)
        except subprocess.TimeoutExpired:
            rc = -999
        finally:
            try:
                os.killpg(p.pid, signal.SIGTERM)
            except (ProcessLookupError, PermissionError):
                pass
            if p.poll() is None:
                p.kill(); p.wait()
        of.seek(0)
        out = of.read()
        if rc == -999: out += b'\nTIMEOUT'
    return rc, out.decode('utf-8', 'replace')


def tree_canon(root, ignore=()):
    """independent content serialisation (names, types, permission bits, bytes, link targets)"""
    out = []
    if not os.path.isdir(root):
        return ('MISSING',)

    def walk(d, rel):
        for n in sorted(os.listdir(d)):
            if n in ignore: continue
            p = os.path.join(d, n)
            st = os.lstat(p)
            r = rel + n
            if stat.S_ISDIR(st.st_mode):
                out.append(('d', r)); walk(p, r + '/')
            elif stat.S_ISLNK(st.st_mode):
                out.append(('l', r, os.readlink(p)))
            else:
                out.append(('f', r, stat.S_IMODE(st.st_mode) & 0o111, open(p, 'rb').read().decode('utf-8', 'replace')))
    walk(root, '')
    return tuple(out)


class Dir:
    """persistent directory with a logical mtime clock: every file the harness changes gets a strictly
    increasing mtime (so "every modification changes the stat data" holds by construction)."""

    def __init__(self, d, clock=None):
        self.d = d
        self.clock = clock or 1_600_000_000 * 10**9
        self.files = {}

    def reset(self):
        shutil.rmtree(self.d, ignore_errors=True)
        os.makedirs(self.d)
        self.files = {}

    def sync(self, files):
        for n in set(self.files) - set(files):
            try: os.unlink(os.path.join(self.d, n))
            except FileNotFoundError: pass
        for n, t in files.items():
            if self.files.get(n) != t:
                p = os.path.join(self.d, n)
                os.makedirs(os.path.dirname(p), exist_ok=True)
                mode = 'wb' if isinstance(t, bytes) else 'w'
                with open(p, mode) as f: f.write(t)
                if n.endswith('.sh'): os.chmod(p, 0o755)
                self.clock += 10**9
                os.utime(p, ns=(self.clock, self.clock))
        self.files = dict(files)


def read_log(path):
    try:
        return [l.strip() for l in open(path).read().splitlines() if l.strip()]
    except FileNotFoundError:
        return []


def result_path(out):
    """path(s) Bob reports as build result"""
    res = []
    lines = out.splitlines()
    for i, l in enumerate(lines):
        if l.startswith('Build result is in '):
            res.append(l[len('Build result is in '):].strip())
        elif l.startswith('Build results are in:'):
            j = i + 1
            while j < len(lines) and lines[j].startswith('   '):
                res.append(lines[j].strip()); j += 1
    return res


def snapshot(src, dst):
    shutil.rmtree(dst, ignore_errors=True)
    subprocess.run(['cp', '-a', src, dst], check=True)


def restore(snap, dst):
    subprocess.run(['rsync', '-a', '--delete', snap + '/', dst + '/'], check=True)
