"""E4 - crash-image enumerator for a single-writer persistence protocol.

The code under test runs on a real scratch directory through proxies installed in its module
namespace (`open`, `os`, `replacePath`); every effectful operation is executed for real and
appended to a trace.  From a trace, `images()` yields every crash image:

  * every prefix of the trace (a crash between any two file-system operations, and between
    any two `write` calls of one file),
  * for every file that holds data not yet covered by an fsync in that prefix, the torn
    variants: every truncation length, a zero-filled tail from every offset, (optionally)
    every single-bit flip - one file at a time, plus "all unsynced files empty".

Model: renames/unlinks/creates are atomic and ordered (journalled metadata), unsynced file
*data* may be lost or torn.  That is the failure model C10 names.
"""
import os, builtins, io, errno


class HarnessError(Exception):
    pass


class Trace:
    def __init__(self):
        self.ops = []
        self.enabled = True
        self.fds = {}       # fileno -> fid
        self.nfid = 0
        self.fault = None   # k: the k-th faultable operation (write/close of a written file, fsync, rename) fails with ENOSPC
        self.nsite = 0
        self.fired = None

    def site(self, what):
        """True if the I/O error is to be injected at this operation"""
        if not self.enabled: return False
        self.nsite += 1
        if self.fault is not None and self.nsite == self.fault:
            self.fired = what
            return True
        return False

    def add(self, *op):
        if self.enabled:
            self.ops.append(op)


class TFile:
    """File object wrapper that logs writes/close (delegates everything else)."""

    def __init__(self, real, fid, tr, name):
        self._r, self._fid, self._tr, self._name = real, fid, tr, name
        tr.fds[real.fileno()] = fid

    def write(self, data):
        if self._tr.site('write'):
            raise OSError(errno.ENOSPC, 'No space left on device (injected)')
        self._tr.add('write', self._fid, bytes(data))
        return self._r.write(data)

    def truncate(self, *a):
        raise HarnessError('truncate not modelled')

    def close(self):
        if not self._r.closed:
            self._tr.fds.pop(self._r.fileno(), None)
            if self._tr.site('close'):
                # the flush of the buffered data fails half way: part of it is in the file, close() reports the error
                self._r.flush()
                os.ftruncate(self._r.fileno(), os.fstat(self._r.fileno()).st_size // 2)
                self._r.close()
                self._tr.add('mark', 'torn-close', self._fid)
                raise OSError(errno.ENOSPC, 'No space left on device (injected)')
            self._r.close()
            self._tr.add('close', self._fid)

    def __enter__(self):
        return self

    def __exit__(self, *a):
        self.close()
        return False

    def __getattr__(self, n):
        return getattr(self._r, n)

    def __iter__(self):
        return iter(self._r)


PURE_OS = {'path', 'fspath', 'getcwd', 'stat', 'lstat', 'listdir', 'sep', 'name', 'environ', 'getpid', 'scandir',
           'access', 'R_OK', 'W_OK', 'X_OK', 'F_OK', 'error', 'strerror', 'curdir', 'pardir', 'linesep', 'fsencode',
           'fsdecode', 'get_terminal_size', 'isatty', 'getenv', 'urandom', 'cpu_count', 'devnull', 'altsep', 'walk'}


class OsProxy:
    """Stands in for the `os` module inside the module under test."""

    def __init__(self, tr):
        self._tr = tr

    def __getattr__(self, n):
        if n.startswith('O_') or n in PURE_OS or n.startswith('SEEK_'):
            return getattr(os, n)
        raise HarnessError('unhooked os.%s used by the code under test' % n)

    def open(self, path, flags, mode=0o777, **kw):
        fd = os.open(path, flags, mode, **kw)       # raises like the real one (EEXIST for O_EXCL)
        if flags & (os.O_WRONLY | os.O_RDWR | os.O_CREAT):
            self._tr.nfid += 1
            self._tr.fds[fd] = self._tr.nfid
            self._tr.add('open', path, self._tr.nfid, 'excl' if flags & os.O_EXCL else ('trunc' if flags & os.O_TRUNC else 'keep'))
        return fd

    def close(self, fd):
        fid = self._tr.fds.pop(fd, None)
        os.close(fd)
        if fid is not None: self._tr.add('close', fid)

    def write(self, fd, data):
        fid = self._tr.fds.get(fd)
        if fid is None: raise HarnessError('os.write on unknown fd')
        self._tr.add('write', fid, bytes(data))
        return os.write(fd, data)

    def fsync(self, fd):
        fid = self._tr.fds.get(fd)
        if fid is None: raise HarnessError('fsync on unknown fd')
        if self._tr.site('fsync'): raise OSError(errno.EIO, 'Input/output error (injected)')
        os.fsync(fd) if False else None     # tmpfs: a real fsync adds nothing; the trace is what counts
        self._tr.add('fsync', fid)

    fdatasync = fsync

    def unlink(self, path, **kw):
        os.unlink(path, **kw)
        self._tr.add('unlink', path)

    remove = unlink

    def rename(self, a, b, **kw):
        if self._tr.site('rename'): raise OSError(errno.ENOSPC, 'No space left on device (injected)')
        os.rename(a, b, **kw)
        self._tr.add('rename', a, b)

    def replace(self, a, b, **kw):
        if self._tr.site('rename'): raise OSError(errno.ENOSPC, 'No space left on device (injected)')
        os.replace(a, b, **kw)
        self._tr.add('rename', a, b)

    def makedirs(self, *a, **kw):
        return os.makedirs(*a, **kw)

    def mkdir(self, *a, **kw):
        return os.mkdir(*a, **kw)


def install(module, tr):
    """Install the proxies into `module` (e.g. bob.state)."""
    def topen(name, mode='r', *a, **kw):
        real = builtins.open(name, mode, *a, **kw)
        if not isinstance(name, (str, bytes)):
            return real
        if any(c in mode for c in 'wax+'):
            tr.nfid += 1
            how = 'trunc' if 'w' in mode else ('excl' if 'x' in mode else 'keep')
            tr.add('open', name, tr.nfid, how)
            return TFile(real, tr.nfid, tr, name)
        return real

    module.open = topen
    module.os = OsProxy(tr)

    def treplace(src, dst):
        if tr.site('rename'): raise OSError(errno.ENOSPC, 'No space left on device (injected)')
        os.replace(src, dst)
        tr.add('rename', src, dst)
    if hasattr(module, 'replacePath'):
        module.replacePath = treplace


class FObj:
    __slots__ = ('data', 'durable', 'synced')

    def __init__(self, data=b'', durable=None):
        self.data = data
        self.durable = durable      # content guaranteed on disk (None: nothing guaranteed)
        self.synced = False


def simulate(ops, upto):
    """File-system model after ops[:upto]: name -> FObj."""
    names, fids = {}, {}
    for op in ops[:upto]:
        k = op[0]
        if k == 'open':
            _, name, fid, how = op
            o = names.get(name)
            if o is None or how == 'excl':
                o = FObj(); o.synced = True; o.durable = b''      # an empty new file is trivially "synced"
                names[name] = o
            elif how == 'trunc':
                o.data = b''; o.synced = (o.durable == b'')
            fids[fid] = o
        elif k == 'write':
            o = fids[op[1]]
            o.data += op[2]; o.synced = False
        elif k == 'fsync':
            o = fids[op[1]]
            o.durable = o.data; o.synced = True
        elif k == 'close':
            pass
        elif k == 'rename':
            names[op[2]] = names.pop(op[1])
        elif k == 'unlink':
            names.pop(op[1], None)
        elif k == 'mark':
            pass
        else:
            raise HarnessError(op)
    return names


def torn_variants(data, durable, bitflips=False, stride=1):
    """Possible on-disk contents of a file whose latest content `data` is not synced.
    (what, bytes) pairs; the intact content is not included."""
    n = len(data)
    seen = set()
    out = []

    def emit(what, b):
        if b != data and b not in seen:
            seen.add(b); out.append((what, b))
    if durable is not None and durable != data:
        emit('durable-old', durable)
    cuts = range(0, n) if stride == 1 else sorted(set(list(range(0, n, stride)) + list(range(max(0, n - 9), n)) + list(range(0, min(n, 6)))))
    for i in cuts:
        emit('trunc@%d' % i, data[:i])
    for i in cuts:
        emit('zero@%d' % i, data[:i] + b'\0' * (n - i))
    if bitflips:
        for i in range(n):
            for b in range(8):
                emit('flip@%d.%d' % (i, b), data[:i] + bytes([data[i] ^ (1 << b)]) + data[i + 1:])
    return out


def images(ops, upto, bitflips=False, stride=1, ignore=()):
    """Yield (description, {name: bytes}) for every crash image at trace position `upto`."""
    names = simulate(ops, upto)
    base = {n: o.data for n, o in names.items()}
    yield 'intact', dict(base)
    uns = [n for n, o in names.items() if not o.synced and n not in ignore]
    for n in uns:
        for what, b in torn_variants(names[n].data, names[n].durable, bitflips, stride):
            img = dict(base); img[n] = b
            yield '%s:%s' % (n, what), img
    if len(uns) > 1:
        img = dict(base)
        for n in uns: img[n] = names[n].durable or b''
        yield 'all-unsynced-lost', img
