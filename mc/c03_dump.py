"""Helper run in a *separate process* (so PYTHONHASHSEED and import order are fresh):
    python -m mc.c03_dump <project dir> <sandbox 0|1> <shuffle seed>
prints a JSON table {"stack:label": [variant-id, build-id, build-id(relaxTools=False)]}."""
import sys, os, json, asyncio, hashlib, random


def table(packages):
    from bob.cmds.build.build import ExecutableStep, LazyIR
    from . import projgen as pg
    memo = {}

    def bid_factory(relax):
        cache = {}

        async def bid(s):
            key = (s.getWorkspacePath(), s.getLabel())
            if key in cache: return cache[key]
            if s.isCheckoutStep():
                r = hashlib.sha1(b'SRC' + s.getVariantId()).digest()       # supplied source hash
            else:
                r = await s.getDigestCoro(calc, fingerprint=b'', platform=b'PLAT', relaxTools=relax)
            cache[key] = r
            return r

        async def calc(steps):
            return [await bid(s) for s in steps]
        return bid
    b1, b2 = bid_factory(True), bid_factory(False)
    rows = {}
    loop = asyncio.new_event_loop()
    for pkg in pg.walk(packages):
        if not pkg.getName(): continue
        for st in pg.steps_of(pkg):
            if not st.isValid(): continue
            ir = ExecutableStep.fromStep(st, LazyIR)
            fps = st._getFingerprintScript() or ''
            rows['/'.join(pkg.getStack()) + ':' + st.getLabel()] = [
                st.getVariantId().hex(), loop.run_until_complete(b1(ir)).hex(), loop.run_until_complete(b2(ir)).hex(),
                hashlib.sha1(fps.encode()).hexdigest()]
    loop.close()
    return rows


def main():
    d, sandbox, shuffle = sys.argv[1], sys.argv[2] == '1', int(sys.argv[3])
    if shuffle:
        import glob
        rnd = random.Random(shuffle)
        real_listdir, real_glob = os.listdir, glob.glob

        def listdir(*a, **k):
            r = real_listdir(*a, **k); rnd.shuffle(r); return r

        def gglob(*a, **k):
            r = real_glob(*a, **k); rnd.shuffle(r); return r
        os.listdir = listdir
        glob.glob = gglob
    from . import runner, projgen as pg
    runner.use_repo()
    recipes, packages = pg.parse(d, sandbox=sandbox)
    json.dump(table(packages), sys.stdout)


if __name__ == '__main__':
    main()
