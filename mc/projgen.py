"""Generated Bob projects for the id / cache properties (C02, C03, C04): a rich base project as a
dict {relative path: text}, an alphabet of single edits with ground truth about what they
change, and helpers to materialise, parse (in-process, real RecipeSet) and walk a project."""
import os, shutil, io, contextlib, re, hashlib

SHA256 = 'a' * 64
SHA1 = 'b' * 40


def base():
    f = {}
    f['config.yaml'] = 'bobMinimumVersion: "0.25"\n'
    f['default.yaml'] = ('environment:\n    GLOBAL: "g1"\n    WEAKG: "wg1"\n    OPT: ""\n'
                         'whitelist: ["WL1"]\n')
    f['classes/base.yaml'] = ('buildVars: [CV]\n'
                              'buildSetup: |\n    base_setup() { echo base-setup; }\n'
                              'buildScript: |\n    echo class-base-build $CV\n'
                              'buildFinalize: |\n    echo class-base-final\n'
                              'packageScript: |\n    echo class-base-pkg\n')
    f['classes/mid.yaml'] = ('inherit: [base]\n'
                             'checkoutSetup: |\n    mid_co() { echo mid-co; }\n'
                             'buildScript: |\n    echo class-mid-build\n'
                             'buildFinalize: |\n    echo class-mid-final\n'
                             'packageVarsWeak: [WEAKG]\n')
    f['recipes/root.yaml'] = ('root: True\n'
                              'depends:\n'
                              '    - name: sandbox\n      use: [sandbox]\n      forward: True\n'
                              '    - name: tool-t\n      use: [tools]\n      forward: True\n'
                              '    - via0\n'
                              '    - lib\n'
                              '    - app\n'
                              '    - m-p1\n'
                              '    - m-p2\n'
                              '    - name: common\n      environment: {A: "a1"}\n'
                              '    - via\n'
                              '    - leaf2\n'
                              '    - mid2\n'
                              '    - mid3\n'
                              '    - wrap\n'
                              '    - sbaware\n'
                              '    - weakuser\n'
                              '    - fpuser\n'
                              '    - fpuser2\n'
                              'environment:\n    CV: "cv1"\n    LV: "one"\n    WV: "weak1"\n    PV: "p1"\n'
                              'buildVars: [GLOBAL]\n'
                              'buildScript: |\n    echo root-build "$@"\n'
                              'packageScript: |\n    echo root-pkg\n')
    f['recipes/lib.yaml'] = ('inherit: [mid]\n'
                             'checkoutDeterministic: True\n'
                             'checkoutSCM:\n'
                             '    - scm: git\n      url: "https://example.com/lib.git"\n      branch: "main"\n      dir: "src"\n'
                             '    - scm: url\n      url: "https://example.com/a.tgz"\n      digestSHA256: "%s"\n      dir: "dl"\n'
                             'checkoutVars: [LV]\n'
                             'checkoutVarsWeak: [WV]\n'
                             'checkoutScript: |\n    echo co $LV $WV\n'
                             'checkoutAssert:\n    - file: "src/x"\n      digestSHA1: "%s"\n'
                             'buildVars: [GLOBAL]\n'
                             'buildVarsWeak: [WV]\n'
                             'buildTools: [t]\n'
                             'buildScript: |\n    echo lib-build\n    cat $<<inc/data.txt>>\n    echo $<\'inc/lit.txt\'>\n    cat $<<inc/*.txt>>\n'
                             'packageVars: [PV]\n'
                             'packageScript: |\n    echo lib-pkg\n'
                             'provideVars:\n    PROVIDED: "from-lib-${LV}"\n'
                             'metaEnvironment:\n    LICENSE: "MIT"\n'
                             'buildNetAccess: False\n'
                             'jobServer: False\n'
                             'buildAuditFiles:\n    F: "lit.txt"\n' % (SHA256, SHA1))
    f['recipes/inc/data.txt'] = 'included-data-1\n'
    f['recipes/inc/lit.txt'] = 'literal-1'
    f['recipes/app.yaml'] = ('depends:\n'
                             '    - name: lib\n      use: [result, environment]\n'
                             '    - name: tool-t\n      use: [tools]\n'
                             'buildVars: [PROVIDED]\n'
                             'buildToolsWeak: [t]\n'
                             'buildScript: |\n    echo app-build $PROVIDED $1\n'
                             'packageScript: |\n    echo app-pkg\n')
    f['recipes/tool-t.yaml'] = ('buildScript: |\n    echo tool-build\n'
                                'packageScript: |\n    echo tool-pkg\n'
                                'provideTools:\n    t:\n        path: "bin"\n        libs: ["lib"]\n        environment: {TENV: "te1"}\n')
    f['recipes/m.yaml'] = ('checkoutDeterministic: True\n'
                           'checkoutScript: |\n    echo m-co\n'
                           'multiPackage:\n'
                           '    p1:\n        buildScript: |\n            echo m1-build\n        packageScript: |\n            echo m1-pkg\n'
                           '    p2:\n        buildVars: [CV]\n        buildScript: |\n            echo m2-build $CV\n        packageScript: |\n            echo m2-pkg\n')
    # shared recipe reached under differing environments/tools (cache stress)
    f['recipes/common.yaml'] = ('buildVars: [X]\n'
                                'privateEnvironment:\n    X: "${A:-${B:-none}}-$(is-tool-defined,t)"\n'
                                'depends:\n    - name: leaf\n      if: "${OPT}"\n'
                                'buildScript: |\n    echo common $X\n'
                                'packageScript: |\n    echo common-pkg\n')
    f['recipes/leaf.yaml'] = ('buildScript: |\n    echo leaf\npackageScript: |\n    echo leaf-pkg\n')
    f['recipes/via.yaml'] = ('depends:\n    - name: common\n      environment: {B: "b1"}\n'
                             'buildScript: |\n    echo via $1\npackageScript: |\n    echo via-pkg\n')
    # a tool-less intermediate (mid2) above a tool user (leaf2), reached under two different providers of tool t
    f['recipes/leaf2.yaml'] = ('buildTools: [t]\nbuildVars: [LV]\nbuildScript: |\n    echo leaf2 $LV\npackageScript: |\n    echo leaf2-pkg\n')
    f['recipes/leaf3.yaml'] = ('packageTools: [t]\nbuildScript: |\n    echo leaf3\npackageScript: |\n    echo leaf3-pkg\n')
    f['recipes/mid2.yaml'] = ('depends: [leaf2, leaf3]\nbuildScript: |\n    echo mid2 $1\npackageScript: |\n    echo mid2-pkg\n')
    # mid3: uses no tool itself, its only dependency (tool user leaf2) is already memoised when mid3 is first visited
    f['recipes/mid3.yaml'] = ('depends: [leaf2]\nbuildScript: |\n    echo mid3 $1\npackageScript: |\n    echo mid3-pkg\n')
    f['recipes/wrap.yaml'] = ('depends:\n    - name: tool-t2\n      use: [tools]\n      forward: True\n    - mid2\n    - mid3\n'
                              'buildScript: |\n    echo wrap $1\npackageScript: |\n    echo wrap-pkg\n')
    f['recipes/tool-t2.yaml'] = ('buildScript: |\n    echo tool2-build\n'
                                 'packageScript: |\n    echo tool2-pkg\n'
                                 'provideTools:\n    t:\n        path: "bin2"\n')
    # the shared recipe is first reached with A and B unset
    f['recipes/via0.yaml'] = ('depends: [common]\nbuildScript: |\n    echo via0 $1\npackageScript: |\n    echo via0-pkg\n')
    # fingerprinted tool used only by the package step, plain tool used by the build step
    f['recipes/tool-fp.yaml'] = ('buildScript: |\n    echo tool-fp\npackageScript: |\n    echo tool-fp-pkg\n'
                                 'provideTools:\n    fpa:\n        path: "."\n        fingerprintScript: "echo fpa"\n        fingerprintIf: True\n')
    f['recipes/tool-plain.yaml'] = ('buildScript: |\n    echo tool-plain\npackageScript: |\n    echo tool-plain-pkg\n'
                                    'provideTools:\n    zplain: "."\n')
    for n, extra in (('fpuser', ''), ('fpuser2', 'fingerprintIf: False\n')):
        f['recipes/%s.yaml' % n] = ('depends:\n    - name: tool-fp\n      use: [tools]\n    - name: tool-plain\n      use: [tools]\n'
                                    'buildTools: [zplain]\npackageTools: [fpa]\n' + extra +
                                    'buildScript: |\n    echo %s\npackageScript: |\n    echo %s-pkg\n' % (n, n))
    f['recipes/sandbox.yaml'] = ('buildScript: |\n    echo sandbox\npackageScript: |\n    echo sandbox-pkg\n'
                                 'provideSandbox:\n    paths: ["/bin"]\n    environment: {SBVAR: "sb1"}\n')
    f['recipes/sbaware.yaml'] = ('buildVars: [S]\nprivateEnvironment:\n    S: "$(is-sandbox-enabled)"\n'
                                 'buildScript: |\n    echo sbaware $S\npackageScript: |\n    echo sbaware-pkg\n')
    f['recipes/weakuser.yaml'] = ('buildToolsWeak: [t]\nbuildScript: |\n    echo weakuser\npackageScript: |\n    echo weakuser-pkg\n')
    return f


def sub(path, old, new, count=1):
    def fn(f):
        assert old in f[path], (path, old)
        f[path] = f[path].replace(old, new, count)
    return fn


def many(*fns):
    def fn(f):
        for x in fns: x(f)
    return fn


def setfile(path, text):
    def fn(f): f[path] = text
    return fn


def delfile(path):
    def fn(f): del f[path]
    return fn


# (name, relevant?, edit).  relevant = changes what some step executes or consumes (=> ids change);
# irrelevant = documented as not influencing any id.
EDITS = [
    ('lib-build-script', True, sub('recipes/lib.yaml', 'echo lib-build', 'echo lib-build-v2')),
    ('lib-pkg-script', True, sub('recipes/lib.yaml', 'echo lib-pkg', 'echo lib-pkg-v2')),
    ('lib-co-script', True, sub('recipes/lib.yaml', 'echo co $LV $WV', 'echo co2 $LV $WV')),
    ('class-base-build', True, sub('classes/base.yaml', 'echo class-base-build $CV', 'echo class-base-build2 $CV')),
    ('class-base-setup', True, sub('classes/base.yaml', 'echo base-setup', 'echo base-setup2')),
    ('class-base-final', True, sub('classes/base.yaml', 'echo class-base-final', 'echo class-base-final2')),
    ('class-mid-build', True, sub('classes/mid.yaml', 'echo class-mid-build', 'echo class-mid-build2')),
    ('class-order', True, sub('classes/mid.yaml', 'buildFinalize: |\n    echo class-mid-final\n', 'buildSetup: |\n    echo class-mid-final\n')),
    ('root-cv-value', True, sub('recipes/root.yaml', 'CV: "cv1"', 'CV: "cv2"')),
    ('root-lv-value', True, sub('recipes/root.yaml', 'LV: "one"', 'LV: "two"')),
    ('root-pv-value', True, sub('recipes/root.yaml', 'PV: "p1"', 'PV: "p2"')),
    ('global-value', True, sub('default.yaml', 'GLOBAL: "g1"', 'GLOBAL: "g2"')),
    ('lib-buildvars-drop', True, sub('recipes/lib.yaml', 'buildVars: [GLOBAL]\n', 'buildVars: []\n')),
    ('lib-weak-to-strong', True, sub('recipes/lib.yaml', 'buildVarsWeak: [WV]', 'buildVars: [WV]')),
    ('lib-packagevars-add', True, sub('recipes/lib.yaml', 'packageVars: [PV]', 'packageVars: [PV, CV2]\nprivateEnvironment: {CV2: "x"}')),
    ('tool-path', True, sub('recipes/tool-t.yaml', 'path: "bin"', 'path: "sbin"')),
    ('tool-libs', True, sub('recipes/tool-t.yaml', 'libs: ["lib"]', 'libs: ["lib", "lib64"]')),
    ('tool-build-script', True, sub('recipes/tool-t.yaml', 'echo tool-build', 'echo tool-build2')),
    ('lib-drop-tool', True, sub('recipes/lib.yaml', 'buildTools: [t]\n', '')),
    ('app-dep-drop', True, sub('recipes/root.yaml', '    - app\n', '')),
    ('root-dep-order2', True, many(sub('recipes/root.yaml', "    - via0\n    - lib\n", "    - lib\n"), sub('recipes/root.yaml', "    - fpuser2\n", "    - fpuser2\n    - via0\n"))),
    ('root-dep-order', True, sub('recipes/root.yaml', '    - lib\n    - app\n', '    - app\n    - lib\n')),
    ('provided-var', True, sub('recipes/lib.yaml', 'PROVIDED: "from-lib-${LV}"', 'PROVIDED: "from-lib2-${LV}"')),
    ('git-branch', True, sub('recipes/lib.yaml', 'branch: "main"', 'branch: "dev"')),
    ('git-url', True, sub('recipes/lib.yaml', 'url: "https://example.com/lib.git"', 'url: "https://example.com/lib2.git"')),
    ('git-dir', True, sub('recipes/lib.yaml', 'dir: "src"', 'dir: "src2"')),
    ('git-tag', True, sub('recipes/lib.yaml', 'branch: "main"', 'tag: "v1"')),
    ('git-commit', True, sub('recipes/lib.yaml', 'branch: "main"', 'commit: "%s"' % ('c' * 40))),
    ('url-digest', True, sub('recipes/lib.yaml', SHA256, 'd' * 64)),
    ('url-url', True, sub('recipes/lib.yaml', 'a.tgz', 'b.tgz')),
    ('assert-digest', True, sub('recipes/lib.yaml', SHA1, 'e' * 40)),
    ('assert-file', True, sub('recipes/lib.yaml', 'file: "src/x"', 'file: "src/y"')),
    ('include-file', True, setfile('recipes/inc/data.txt', 'included-data-2\n')),
    ('include-literal', True, setfile('recipes/inc/lit.txt', 'literal-2')),
    ('m-p2-script', True, sub('recipes/m.yaml', 'echo m2-build $CV', 'echo m2-build2 $CV')),
    ('m-co-script', True, sub('recipes/m.yaml', 'echo m-co', 'echo m-co2')),
    ('common-a', True, sub('recipes/root.yaml', 'environment: {A: "a1"}', 'environment: {A: "a2"}')),
    ('common-b', True, sub('recipes/via.yaml', 'environment: {B: "b1"}', 'environment: {B: "b2"}')),
    ('tool2-path', True, sub('recipes/tool-t2.yaml', 'path: "bin2"', 'path: "bin3"')),
    ('tool2-script', True, sub('recipes/tool-t2.yaml', 'echo tool2-build', 'echo tool2-build2')),
    ('sandbox-script', True, sub('recipes/sandbox.yaml', 'echo sandbox\n', 'echo sandbox2\n')),
    ('opt-leaf', True, sub('default.yaml', 'OPT: ""', 'OPT: "1"')),
    ('leaf-script', False, sub('recipes/leaf.yaml', 'echo leaf\n', 'echo leaf2\n')),       # leaf is not used while OPT is empty
    # ---- documented as id-irrelevant
    ('weak-value', False, sub('recipes/root.yaml', 'WV: "weak1"', 'WV: "weak2"')),
    ('weak-global', False, sub('default.yaml', 'WEAKG: "wg1"', 'WEAKG: "wg2"')),
    ('meta-env', False, sub('recipes/lib.yaml', 'LICENSE: "MIT"', 'LICENSE: "GPL"')),
    ('audit-files', False, sub('recipes/lib.yaml', 'F: "lit.txt"', 'F: "other.txt"')),
    ('net-access', False, sub('recipes/lib.yaml', 'buildNetAccess: False', 'buildNetAccess: True')),
    ('job-server', False, sub('recipes/lib.yaml', 'jobServer: False', 'jobServer: True')),
    ('yaml-comment', False, sub('recipes/lib.yaml', 'inherit: [mid]\n', '# a comment\ninherit: [mid]\n')),
    ('yaml-key-order', False, sub('recipes/tool-t.yaml', 'path: "bin"\n        libs: ["lib"]\n', 'libs: ["lib"]\n        path: "bin"\n')),
    ('tool-env', False, sub('recipes/tool-t.yaml', 'TENV: "te1"', 'TENV: "te2"')),        # nobody consumes TENV
    ('sandbox-env', False, sub('recipes/sandbox.yaml', 'SBVAR: "sb1"', 'SBVAR: "sb2"')),     # nobody consumes SBVAR
    ('whitelist', False, sub('default.yaml', 'whitelist: ["WL1"]', 'whitelist: ["WL1", "WL2"]')),
    ('unused-var', False, sub('recipes/root.yaml', 'PV: "p1"\n', 'PV: "p1"\n    UNUSED: "u"\n')),
]


def materialize(files, d, order=None):
    """write the project; `order` permutes file creation order (directory listing order)"""
    shutil.rmtree(d, ignore_errors=True)
    names = list(files)
    if order is not None:
        names = [names[i] for i in order]
    for n in names:
        p = os.path.join(d, n)
        os.makedirs(os.path.dirname(p), exist_ok=True)
        with open(p, 'w') as f: f.write(files[n])


def parse(d, sandbox=False, defines=None, configs=(), develop=True):
    """parse the project in-process; returns (recipes, packages). cwd is changed to d."""
    import bob.builder as bb
    from bob.input import RecipeSet
    os.chdir(d)
    recipes = RecipeSet()
    recipes.defineHook('releaseNameFormatter', bb.LocalBuilder.releaseNameFormatter)
    recipes.defineHook('developNameFormatter', bb.LocalBuilder.developNameFormatter)
    recipes.defineHook('developNamePersister', None)
    if configs: recipes.setConfigFiles(list(configs))
    buf = io.StringIO()
    with contextlib.redirect_stdout(buf), contextlib.redirect_stderr(buf):
        recipes.parse(defines or {})
        packages = recipes.generatePackages(lambda s, m: 'ws/' + '_'.join(s.getPackage().getStack()) + '/' + s.getLabel(), sandbox, False)
        packages.getRootPackage()
    return recipes, packages


def walk(packages):
    """yield every package of the unfolded tree (by stack) once"""
    seen = set()
    todo = [packages.getRootPackage()]
    while todo:
        p = todo.pop()
        key = tuple(p.getStack())
        if key in seen: continue
        seen.add(key)
        yield p
        for s in list(p.getDirectDepSteps()) + list(p.getIndirectDepSteps()):
            todo.append(s.getPackage())


def steps_of(pkg):
    return [s for s in (pkg.getCheckoutStep(), pkg.getBuildStep(), pkg.getPackageStep())]


def norm_script(text):
    """drop the debug line with the recipe name and rename include temp variables"""
    if text is None: return ''
    lines = [l for l in text.split('\n') if not l.startswith('_BOB_SOURCES[$LINENO]=')]
    text = '\n'.join(lines)
    names = re.findall(r'^(_[A-Za-z0-9_]+?)(\d+)=\$\(mktemp\)$', text, flags=re.M)
    for i, (base_, num) in enumerate(names):
        text = text.replace(base_ + num, '_INC%d' % i)
    return text
