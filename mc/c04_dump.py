"""Helper run in a separate process (one Bob invocation = one process, like the real tool):
    python -m mc.c04_dump <project dir> <json args>
args: {"sandbox": bool, "defines": {..}, "configs": [..], "nomemo": bool}
Prints the full dump of the package graph as JSON."""
import sys, os, json, hashlib


def dump(packages):
    from . import projgen as pg
    out = {}
    for pkg in pg.walk(packages):
        stack = '/'.join(pkg.getStack())
        ent = dict(name=pkg.getName(),
                   direct=['/'.join(s.getPackage().getStack()) + ':' + s.getLabel() for s in pkg.getDirectDepSteps()],
                   indirect=['/'.join(s.getPackage().getStack()) + ':' + s.getLabel() for s in pkg.getIndirectDepSteps()],
                   meta=sorted(pkg.getMetaEnv().items()), steps={})
        if pkg.getName():
            for st in pg.steps_of(pkg):
                if not st.isValid(): continue
                sb = st.getSandbox()
                ent['steps'][st.getLabel()] = dict(
                    vid=st.getVariantId().hex(),
                    setup=hashlib.sha1((st.getSetupScript() or '').encode()).hexdigest(),
                    main=hashlib.sha1((st.getMainScript() or '').encode()).hexdigest(),
                    digest=hashlib.sha1((st.getDigestScript() or '').encode()).hexdigest(),
                    env=sorted(st.getEnv().items()),
                    tools=[(n, '/'.join(t.getStep().getPackage().getStack()), t.getStep().getVariantId().hex(), t.getPath(), list(t.getLibs()))
                           for n, t in sorted(st.getTools().items())],
                    args=[('/'.join(a.getPackage().getStack()), a.getLabel(), a.getVariantId().hex()) for a in st.getArguments() if a.isValid()],
                    sandbox=(sb.getStep().getVariantId().hex(), list(sb.getPaths()), sb.isEnabled()) if sb else None)
        out[stack] = ent
    q = {}
    for query in ('//*', '/*', '//common', '//*["${LICENSE}" == "MIT"]'):
        try:
            q[query] = sorted('/'.join(p.getStack()) for p in packages.queryPackagePath(query))
        except Exception as e:
            q[query] = 'ERR %s: %s' % (type(e).__name__, str(e)[:80])
    try:
        q['tree'] = sorted('/'.join(s) for s, n in packages.queryTreePath('//*'))
    except Exception as e:
        q['tree'] = 'ERR %s: %s' % (type(e).__name__, str(e)[:80])
    return dict(packages=out, queries=q)


def main():
    d = sys.argv[1]
    a = json.loads(sys.argv[2])
    from . import runner, projgen as pg
    runner.use_repo()
    if a.get('nomemo'):
        import bob.input
        bob.input.PackageMatcher.matches = lambda self, *x: False
    try:
        recipes, packages = pg.parse(d, sandbox=a.get('sandbox', False), defines=a.get('defines') or {}, configs=a.get('configs') or ())
        res = dump(packages)
    except Exception as e:
        res = dict(error='%s: %s' % (type(e).__name__, str(e)[:200]))
    json.dump(res, sys.stdout, sort_keys=True)


if __name__ == '__main__':
    main()
