"""E2 - system-call-boundary scheduler.

Code whose concurrency is *between processes through the file system* is run with one Python
thread per "process".  A baton makes exactly one thread run at a time; a thread hands the
baton back at every intercepted call into os / os.path / tempfile / open / flock (the calls
are reached through proxies placed in the module namespace of the code under test).  Real
files on tmpfs are used, so the kernel supplies the semantics of link/rename/O_EXCL.

Exploration is stateless depth-first search over choice sequences with a preemption bound
(iterative context bounding): choice 0 continues the running thread (if enabled), any other
choice while the running thread is enabled costs one preemption.

Faults: `kill` of an actor at its k-th point (private BaseException; afterwards every
intercepted call of that actor is a no-op and its open files are redirected to /dev/null, so
unwinding `finally:` blocks touch nothing - what SIGKILL leaves behind) and `eio` (the
pending call raises OSError instead of being executed; the actor continues).
"""
import os, sys, threading, errno, builtins, tempfile, io, traceback


class Killed(BaseException):
    pass


class HarnessError(Exception):
    pass


class Actor:
    def __init__(self, idx, name, fn):
        self.idx, self.name, self.fn = idx, name, fn
        self.sem = threading.Semaphore(0)
        self.pending = ('start', '')
        self.guard = None
        self.done = False
        self.killed = False
        self.result = None
        self.exc = None
        self.npoints = 0
        self.files = []
        self.thread = None
        self.locks = {}
        self.trace = []


class Execution:
    """One execution under a given choice prefix and fault."""

    current = None      # the Execution whose actors are running (for the proxies)

    def __init__(self, actors, prefix=(), fault=None, after_step=None, max_steps=2000):
        self.actors = [Actor(i, n, f) for i, (n, f) in enumerate(actors)]
        self.prefix = list(prefix)
        self.fault = fault              # (actor idx, point number, 'kill'|'eio')
        self.after_step = after_step
        self.main_sem = threading.Semaphore(0)
        self.points = []                # (enabled idxs in canonical order, running_enabled)
        self.choices = []
        self.steps = []                 # (actor name, op)
        self.running = None
        self.max_steps = max_steps
        self.lock_table = {}            # key -> {actor idx: 'sh'|'ex'}
        self.deadlock = False
        self.problems = []

    # ------------------------------------------------------------------ actor side
    def me(self):
        t = threading.current_thread()
        return getattr(t, 'e2_actor', None)

    def point(self, kind, desc='', guard=None):
        """Called by the proxies in actor threads before an intercepted operation."""
        a = self.me()
        if a is None:
            return None
        if a.killed:
            return 'dead'
        a.pending = (kind, desc)
        a.guard = guard
        self.main_sem.release()
        a.sem.acquire()
        a.guard = None
        if getattr(a, 'abort', False):
            a.killed = True
            raise Killed()
        a.npoints += 1
        a.trace.append((kind, desc))
        if self.fault and self.fault[0] == a.idx and self.fault[1] == a.npoints and self.fault[2] in ('kill', 'eio'):
            if self.fault[2] == 'kill':
                a.killed = True
                for f in a.files:
                    try:
                        fd = f.fileno()
                        dn = os.open(os.devnull, os.O_WRONLY)
                        os.dup2(dn, fd); os.close(dn)
                    except Exception:
                        pass
                for key in list(a.locks):
                    self.unlock(a, key)
                raise Killed()
            raise OSError(errno.EIO, 'injected I/O error at ' + kind)
        return None

    def _body(self, a):
        a.sem.acquire()
        try:
            a.result = a.fn()
        except Killed:
            pass
        except BaseException as e:
            a.exc = e
            a.tb = traceback.format_exc()
        finally:
            a.done = True
            for key in list(a.locks):
                self.unlock(a, key)
            self.main_sem.release()

    # ------------------------------------------------------------------ locks (flock model)
    def can_lock(self, a, key, mode):
        holders = self.lock_table.get(key, {})
        others = {i: m for i, m in holders.items() if i != a.idx}
        if mode == 'ex':
            return not others
        return all(m == 'sh' for m in others.values())

    def lock(self, a, key, mode):
        assert self.can_lock(a, key, mode)
        self.lock_table.setdefault(key, {})[a.idx] = mode
        a.locks[key] = mode

    def unlock(self, a, key):
        self.lock_table.get(key, {}).pop(a.idx, None)
        a.locks.pop(key, None)

    # ------------------------------------------------------------------ main side
    def run(self):
        Execution.current = self
        for a in self.actors:
            t = threading.Thread(target=self._body, args=(a,), daemon=True)
            t.e2_actor = a
            a.thread = t
            t.start()
        n = 0
        while True:
            live = [a for a in self.actors if not a.done]
            if not live:
                break
            enabled = [a for a in live if a.guard is None or a.guard()]
            if not enabled:
                self.deadlock = True
                self.problems.append('deadlock: ' + ', '.join('%s waits at %s' % (a.name, a.pending) for a in live))
                break
            enabled.sort(key=lambda a: (0 if a is self.running else 1, a.idx))
            running_enabled = self.running is not None and enabled[0] is self.running
            i = len(self.choices)
            if i < len(self.prefix):
                c = self.prefix[i]
                if c >= len(enabled):
                    raise HarnessError('replay divergence at step %d: choice %d of %d enabled' % (i, c, len(enabled)))
            else:
                c = 0
            self.points.append(([a.idx for a in enabled], running_enabled))
            self.choices.append(c)
            a = enabled[c]
            self.running = a
            self.steps.append((a.name,) + tuple(a.pending))
            a.sem.release()
            self.main_sem.acquire()         # until a reaches its next point or finishes
            n += 1
            if self.after_step:
                self.after_step(self)
            if n > self.max_steps:
                self.problems.append('step limit exceeded (livelock?)')
                break
        # release leftovers of an aborted run
        for a in self.actors:
            if not a.done:
                a.abort = True
                a.sem.release()
        for a in self.actors:
            a.thread.join(5)
        Execution.current = None
        return self

    def preemptions(self, upto=None):
        n = 0
        for j, c in enumerate(self.choices[:upto]):
            if c != 0 and self.points[j][1]:
                n += 1
        return n


def explore(make, bound, check, fault=None, limit=None, stats=None):
    """Preemption-bounded DFS. make() -> (actors, after_step) creates a fresh world for one
    execution; check(execution, world) evaluates the end-state oracles."""
    stack = [[]]
    n = 0
    while stack:
        prefix = stack.pop()
        world = make()
        x = Execution(world.actors, prefix, fault, world.after_step)
        world.execution = x
        x.on_lock = getattr(world, 'on_lock', None)
        x.on_unlock = getattr(world, 'on_unlock', None)
        x.run()
        n += 1
        check(x, world)
        world.cleanup()
        for i in range(len(prefix), len(x.points)):
            enabled, running_enabled = x.points[i]
            cost = x.preemptions(i) + (1 if running_enabled else 0)
            if cost > bound:
                continue
            for alt in range(1, len(enabled)):
                stack.append(x.choices[:i] + [alt])
        if limit and n >= limit:
            if stats is not None: stats['capped'] = True
            break
    return n


# ---------------------------------------------------------------------------- proxies
def cur():
    return Execution.current


PATH_POINTS = {'isfile', 'isdir', 'exists', 'lexists', 'islink', 'getsize', 'getmtime', 'samefile'}
OS_POINTS = {'makedirs', 'mkdir', 'link', 'unlink', 'remove', 'rename', 'replace', 'chmod', 'symlink', 'rmdir',
             'listdir', 'stat', 'lstat', 'utime', 'readlink', 'scandir', 'open', 'close', 'fsync', 'truncate'}
DEAD_RESULT = {'isfile': False, 'isdir': False, 'exists': False, 'lexists': False, 'islink': False, 'listdir': []}


class PathProxy:
    def __getattr__(self, n):
        real = getattr(os.path, n)
        if n not in PATH_POINTS:
            return real

        def f(*a, **k):
            x = cur()
            if x is not None and not _private(a) and x.point('path.' + n, _d(a)) == 'dead':
                return DEAD_RESULT.get(n)
            return real(*a, **k)
        return f


class OsProxy:
    def __init__(self):
        self.path = PathProxy()

    def __getattr__(self, n):
        real = getattr(os, n)
        if n not in OS_POINTS:
            return real

        def f(*a, **k):
            x = cur()
            if x is not None and not _private(a) and x.point('os.' + n, _d(a)) == 'dead':
                return DEAD_RESULT.get(n)
            return real(*a, **k)
        return f


def _private(args):
    x = cur()
    a = x.me() if x else None
    if a is None or not getattr(a, 'private', None):
        return False
    paths = [p for p in args if isinstance(p, str)]
    return bool(paths) and all(any(p == pre or p.startswith(pre + os.sep) for pre in a.private) for p in paths)


def _d(args):
    return ' '.join(os.path.basename(str(a)) if isinstance(a, str) else str(a) for a in args[:2])[:80]


class FileProxy:
    """Wraps a (buffered) file object: close is a scheduling point; registered with the actor
    so that a kill can neutralise it. Writes go to the real object (kernel sees them when the
    buffer is flushed - exactly like in the real process)."""

    def __init__(self, real, label, shared=False):
        object.__setattr__(self, '_r', real)
        object.__setattr__(self, '_label', label)
        object.__setattr__(self, '_shared', shared)
        object.__setattr__(self, '_nread', 0)
        x = cur()
        a = x.me() if x else None
        if a is not None:
            a.files.append(real)

    def close(self):
        x = cur()
        if x is not None and not self._r.closed:
            if x.point('close', self._label) == 'dead':
                return
        return self._r.close()

    def write(self, data):
        x = cur()
        a = x.me() if x else None
        if a is not None and a.killed:
            return len(data)
        if a is not None and x.fault and x.fault[0] == a.idx and x.fault[2] == 'eio-write':
            a.nwrites = getattr(a, 'nwrites', 0) + 1
            if a.nwrites == x.fault[1]:
                raise OSError(errno.ENOSPC, 'injected ENOSPC in write')
        return self._r.write(data)

    def __enter__(self):
        self._r.__enter__()
        return self

    def __exit__(self, *a):
        self.close()
        return False

    def _pt(self, what):
        """read/truncate/flush of a shared file are system calls other actors can observe"""
        x = cur()
        if self._shared and x is not None and x.me() is not None:
            return x.point(what, self._label)
        return None

    def read(self, *a):
        n = self._nread
        object.__setattr__(self, '_nread', n + 1)
        if n < MAX_READ_POINTS and self._pt('read') == 'dead':
            return b'' if 'b' in getattr(self._r, 'mode', 'b') else ''
        return self._r.read(*a)

    def truncate(self, *a):
        if self._pt('truncate') == 'dead':
            return 0
        return self._r.truncate(*a)

    def flush(self):
        if self._pt('flush') == 'dead':
            return None
        return self._r.flush()

    def __getattr__(self, n):
        return getattr(self._r, n)

    def __setattr__(self, n, v):
        setattr(self._r, n, v)

    def __iter__(self):
        return iter(self._r)


MAX_READ_POINTS = 2


class NameSeq:
    """Deterministic replacement for tempfile's random name sequence."""

    def __init__(self):
        self.n = 0

    def __iter__(self):
        return self

    def __next__(self):
        self.n += 1
        x = cur()
        a = x.me() if x else None
        return '%s%04d' % (a.name if a else 'm', self.n)


def named_temporary_file(*args, **kw):
    x = cur()
    if x is not None and x.point('mktemp', os.path.basename(str(kw.get('dir', '')))) == 'dead':
        return FileProxy(open(os.devnull, 'wb'), 'dead')
    f = tempfile.NamedTemporaryFile(*args, **kw)
    return FileProxy(f, 'tmp:' + os.path.basename(f.name))


def mkdtemp(*args, **kw):
    x = cur()
    if x is not None and x.point('mkdtemp', os.path.basename(str(kw.get('dir', '')))) == 'dead':
        return '/nonexistent-dead'
    return tempfile.mkdtemp(*args, **kw)


def open_proxy(name, mode='r', *a, **k):
    x = cur()
    if x is not None and x.me() is not None and not _private((name,)):
        if x.point('open', _d((name, mode))) == 'dead':
            return FileProxy(builtins.open(os.devnull, 'rb' if 'b' in mode else 'r') if 'r' in mode and '+' not in mode
                             else builtins.open(os.devnull, mode), 'dead')
        return FileProxy(builtins.open(name, mode, *a, **k), 'f:' + os.path.basename(str(name)), shared=True)
    return builtins.open(name, mode, *a, **k)


# ---------------------------------------------------------------------------- flock model
def lock_file(fd, exclusive):
    x = cur()
    a = x.me() if x else None
    if a is None or a.killed:
        return
    st = os.fstat(fd.fileno())
    key = (st.st_dev, st.st_ino)
    mode = 'ex' if exclusive else 'sh'
    if key in a.locks:
        raise HarnessError('actor locks the same inode twice')
    label = os.path.basename(getattr(fd, 'name', '?'))
    if x.point('flock', '%s %s' % (mode, label), guard=lambda: x.can_lock(a, key, mode)) == 'dead':
        return
    x.lock(a, key, mode)
    cb = getattr(x, 'on_lock', None)
    if cb: cb(a, getattr(fd, 'name', '?'), mode)


def unlock_file(fd):
    x = cur()
    a = x.me() if x else None
    if a is None or a.killed:
        return
    st = os.fstat(fd.fileno())
    key = (st.st_dev, st.st_ino)
    if x.point('funlock', os.path.basename(getattr(fd, 'name', '?'))) == 'dead':
        return
    x.unlock(a, key)
    cb = getattr(x, 'on_unlock', None)
    if cb: cb(a, getattr(fd, 'name', '?'))


class TmpDir:
    def __init__(self, dir=None):
        self.dir = dir
        self.name = None

    def __enter__(self):
        x = cur()
        a = x.me() if x else None
        if a is not None:
            if x.point('mkdtemp', os.path.basename(self.dir or '')) == 'dead':
                self.name = '/nonexistent-dead'
                return self.name
        self.name = tempfile.mkdtemp(dir=self.dir)
        if a is not None:
            a.private = getattr(a, 'private', []) + [self.name]
        return self.name

    def __exit__(self, *exc):
        import shutil
        x = cur()
        a = x.me() if x else None
        if a is not None and x.point('rmtree-tmp', os.path.basename(self.name)) == 'dead':
            return False
        shutil.rmtree(self.name, ignore_errors=True)
        return False


class TempfileProxy:
    TemporaryDirectory = TmpDir

    def __getattr__(self, n):
        raise HarnessError('unhooked tempfile.%s' % n)
