import sys, os, json, argparse, importlib
from . import runner


def main():
    ap = argparse.ArgumentParser()
    ap.add_argument('pid')
    ap.add_argument('--tier', default=os.environ.get('VERIF_TIER', 'quick'), choices=['quick', 'thorough'])
    ap.add_argument('--replay', default=None)
    ap.add_argument('--opt', action='append', default=[], help='k=v passed to the check (debugging)')
    a = ap.parse_args()
    seed = int(os.environ.get('VERIF_SEED', '0') or 0)
    runner.use_repo()
    mod = importlib.import_module('mc.props.' + a.pid.lower())
    ctx = runner.Ctx(a.pid.upper(), a.tier, seed, getattr(mod, 'LEVEL', 'model_checking'))
    ctx.opts = dict(o.split('=', 1) for o in a.opt)
    if a.replay:
        body = json.load(open(a.replay))
        sys.exit(mod.replay(ctx, body))
    sys.exit(mod.run(ctx))


if __name__ == '__main__':
    main()
