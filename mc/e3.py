"""E3 - virtual asyncio loop with enumerated external events.

A BaseEventLoop subclass without selector: time is virtual, `add_reader` registrations are
recorded, and the loop is driven iteration by iteration by the explorer.  An iteration of the
real loop is: poll for I/O -> queue the callbacks of what happened -> run exactly the handles
that are ready now (newly scheduled ones wait for the next iteration).  asyncio's FIFO order
of ready handles is deterministic in the real loop too, so the only nondeterminism is *which
external events have happened when an iteration starts*.  At every iteration boundary the
explorer chooses a (possibly empty) ordered list of enabled external events:

  * `done:<name>`     - a pending harness future (a running step / job) completes
  * `readable:<fd>`   - a registered reader's fd is readable (the real pipe has data)
  * `ext:<name>`      - an instantaneous action of a foreign process on shared state
                        (e.g. a child make taking/returning a job-server token)
  * `timer`           - virtual time jumps to the next scheduled timer

Default choice: nothing while handles are ready, otherwise the oldest enabled event.  Choosing
another single event while the ready queue is empty is free (that is "another assignment of
durations"); delivering while handles are still ready, or two events at one boundary, costs
one deviation.  Exploration is depth-first over choice lists, deviation bounded, every
execution replayed from scratch on a fresh loop.
"""
import asyncio, heapq, select, os, itertools
from asyncio import events


class HarnessError(Exception):
    pass


class Stuck(BaseException):
    pass


class VLoop(asyncio.BaseEventLoop):
    def __init__(self):
        super().__init__()
        self._vtime = 0.0
        self.readers = {}
        self._exc = []
        self.set_exception_handler(lambda loop, ctx: self._exc.append(ctx))

    def time(self):
        return self._vtime

    def _write_to_self(self):
        pass

    def _process_events(self, ev):
        pass

    def add_reader(self, fd, cb, *args):
        self.readers[fd] = (cb, args)

    def remove_reader(self, fd):
        return self.readers.pop(fd, None) is not None

    def add_signal_handler(self, *a):
        pass

    def remove_signal_handler(self, *a):
        return True

    director = None

    def _run_once(self):
        """Used when the code under test drives the loop itself (run_until_complete)."""
        if self.director is not None:
            self.director.boundary(self)
        self.run_iteration()

    # driving
    def ready_count(self):
        return len(self._ready)

    def run_iteration(self):
        """Run the handles that are ready now (one loop iteration, without polling)."""
        # timers that are due
        while self._scheduled and self._scheduled[0]._when <= self._vtime:
            h = heapq.heappop(self._scheduled)
            h._scheduled = False
            if not h._cancelled:
                self._ready.append(h)
        n = len(self._ready)
        for _ in range(n):
            h = self._ready.popleft()
            if not h._cancelled:
                h._run()

    def next_timer(self):
        while self._scheduled and self._scheduled[0]._cancelled:
            h = heapq.heappop(self._scheduled); h._scheduled = False
        return self._scheduled[0]._when if self._scheduled else None

    def readable_fds(self):
        fds = list(self.readers)
        if not fds:
            return []
        r, _, _ = select.select(fds, [], [], 0)
        return sorted(r)


class World:
    """What a harness provides for one execution (fresh per execution)."""

    def setup(self, loop):          # create tasks on the loop; return the main future/task or None
        raise NotImplementedError

    def pending(self):              # ordered list of names of harness futures that can complete now
        return []

    def complete(self, name):       # make it complete (sets the future result/exception)
        raise NotImplementedError

    def ext_actions(self):          # ordered list of instantaneous foreign-process actions enabled now
        return []

    def do_ext(self, name):
        raise NotImplementedError

    def finished(self):             # True when the scenario is over
        raise NotImplementedError

    def after_iteration(self, loop):    # invariants on every state
        pass

    def teardown(self):
        pass


class Exec:
    def __init__(self, world, prefix=(), max_iters=5000):
        self.world = world
        self.prefix = list(prefix)
        self.choices = []       # index into menu at each boundary
        self.menus = []         # list of (options, costs)
        self.log = []           # human readable
        self.max_iters = max_iters
        self.problems = []

    def menu(self, loop):
        w = self.world
        ev = ['done:' + n for n in w.pending()] + ['readable:%d' % fd for fd in loop.readable_fds()]
        ext = ['ext:' + n for n in w.ext_actions()]
        busy = loop.ready_count() > 0
        opts, costs = [], []
        if busy:
            opts.append(()); costs.append(0)
            for e in ev + ext:
                opts.append((e,)); costs.append(1)
        else:
            for e in ev:
                opts.append((e,)); costs.append(0)
            for e in ext:
                opts.append((e,)); costs.append(0 if not ev else 1)
            if not opts and loop.next_timer() is not None:
                opts.append(('timer',)); costs.append(0)
        # two events at one boundary (ordered)
        for a, b in itertools.permutations(ev + ext, 2):
            opts.append((a, b)); costs.append(1 + (1 if busy else 0))
        return opts, costs

    def boundary(self, loop):
        """One iteration boundary: choose and deliver external events. Returns False if stuck."""
        w = self.world
        opts, costs = self.menu(loop)
        if not opts:
            if loop.ready_count() == 0:
                self.problems.append(('stuck', 'no enabled event and nothing ready: lost wake-up / deadlock'))
                if loop.director is not None:
                    raise Stuck()
                return False
            opts, costs = [()], [0]
        i = len(self.choices)
        c = self.prefix[i] if i < len(self.prefix) else 0
        if c >= len(opts):
            raise HarnessError('replay divergence at boundary %d: choice %d of %d' % (i, c, len(opts)))
        self.choices.append(c)
        self.menus.append((opts, costs))
        self.nboundary = getattr(self, 'nboundary', 0) + 1
        if self.nboundary > self.max_iters:
            self.problems.append(('livelock', 'iteration limit exceeded'))
            if loop.director is not None:
                raise Stuck()
            return False
        for e in opts[c]:
            self.log.append(e)
            kind, _, arg = e.partition(':')
            if kind == 'done':
                w.complete(arg)
            elif kind == 'readable':
                fd = int(arg)
                if fd in loop.readers:
                    cb, args = loop.readers[fd]
                    loop.call_soon(cb, *args)
            elif kind == 'ext':
                w.do_ext(arg)
            elif kind == 'timer':
                loop._vtime = loop.next_timer()
        return True

    def run_directed(self, fn):
        """The code under test (fn(loop)) drives the loop with run_until_complete; every
        iteration boundary is decided here."""
        loop = VLoop()
        self.loop = loop
        loop.director = self
        asyncio.set_event_loop(loop)
        self.result = self.exc = None
        try:
            self.result = fn(loop)
        except Stuck:
            pass
        except BaseException as e:
            self.exc = e
        finally:
            try:
                self.world.teardown()
            finally:
                loop.director = None
                try:
                    for t in asyncio.all_tasks(loop): t.cancel()
                    events._set_running_loop(loop)
                    for _ in range(10):
                        if loop.ready_count(): loop.run_iteration()
                except Exception:
                    pass
                events._set_running_loop(None)
                asyncio.set_event_loop(None)
                loop.close()
        return self

    def run(self):
        loop = VLoop()
        self.loop = loop
        events._set_running_loop(loop)
        asyncio.set_event_loop(loop)
        w = self.world
        try:
            w.setup(loop)
            while True:
                if w.finished() and loop.ready_count() == 0:
                    break
                if not self.boundary(loop):
                    break
                loop.run_iteration()
                w.after_iteration(loop)
        finally:
            try:
                w.teardown()
            finally:
                # cancel leftovers quietly
                for t in asyncio.all_tasks(loop):
                    t.cancel()
                for _ in range(5):
                    if loop.ready_count(): loop.run_iteration()
                events._set_running_loop(None)
                asyncio.set_event_loop(None)
                loop.close()
        return self

    def deviations(self, upto=None):
        return sum(self.menus[j][1][c] for j, c in enumerate(self.choices[:upto]))


def explore(make_world, bound, check, limit=None, stats=None, directed=None):
    stack = [[]]
    n = 0
    while stack:
        prefix = stack.pop()
        w = make_world()
        x = Exec(w, prefix)
        x.run_directed(lambda loop: directed(w, loop)) if directed else x.run()
        n += 1
        check(x, w)
        for i in range(len(prefix), len(x.choices)):
            opts, costs = x.menus[i]
            base = x.deviations(i)
            for alt in range(len(opts)):
                if alt == x.choices[i]: continue
                if base + costs[alt] > bound: continue
                stack.append(x.choices[:i] + [alt])
        if limit and n >= limit:
            if stats is not None: stats['capped'] = True
            break
    return n
