#!/bin/bash
# Offline setup: nothing to fetch or build; verify the interpreter and the tree under test import.
cd "$(dirname "$(readlink -f "$0")")/.." || exit 1
/venv/bin/python -c "import sys; sys.path.insert(0,'/repo/pym'); import bob, pyparsing, yaml, schema; print('bob from', bob.__file__)" || exit 1
/venv/bin/python -m compileall -q mc >/dev/null || exit 1
mkdir -p evidence replays
echo setup ok
