#!/venv/bin/python
"""Confirm a seeded change independently and store it under /verif/seeded/<seedid>/.

usage: seed_confirm.py <seedid> <property> <srcdir>      (srcdir holds patch.diff, demo.py, notes.md)
Steps (all in a scratch worktree of /repo HEAD, removed afterwards):
  1. demo.py on the unchanged tree -> must exit 0
  2. git apply patch.diff; byte-compile -> must succeed
  3. pinned suite -> every stable_pass test must pass
  4. demo.py on the changed tree -> must exit non-zero
"""
import sys, os, subprocess, json, shutil, time
seedid, prop, src = sys.argv[1:4]
wt = '/tmp/seedwt-' + seedid
out = os.path.join('/verif/seeded', seedid)
def sh(cmd, **kw):
    return subprocess.run(cmd, shell=True, stdout=subprocess.PIPE, stderr=subprocess.STDOUT, text=True, **kw)
subprocess.run('git -C /repo worktree remove --force %s 2>/dev/null; git -C /repo worktree add -q --detach %s HEAD' % (wt, wt), shell=True, check=True)
meta = dict(seed=seedid, property=prop, confirmed=False, ran=[])
try:
    env = dict(os.environ, PYTHONPATH=wt + '/pym')
    r = sh('timeout 600 /venv/bin/python %s/demo.py %s' % (src, wt), env=env); meta['demo_clean_rc'] = r.returncode
    meta['ran'].append('demo.py on clean tree rc=%d' % r.returncode)
    r = sh('git -C %s apply %s/patch.diff' % (wt, src)); meta['apply_rc'] = r.returncode
    if r.returncode: print(r.stdout)
    r = sh('/venv/bin/python -m compileall -q %s/pym/bob' % wt); meta['compile_rc'] = r.returncode
    r = sh('/verif/tools/suite_check.py %s -n 8' % wt); meta['suite_rc'] = r.returncode; meta['suite'] = r.stdout.strip().splitlines()[-1:]
    meta['ran'].append('pinned suite with patch: ' + ' '.join(meta['suite']))
    r = sh('timeout 600 /venv/bin/python %s/demo.py %s' % (src, wt), env=env); meta['demo_patched_rc'] = r.returncode
    meta['demo_patched_tail'] = r.stdout.strip().splitlines()[-6:]
    meta['ran'].append('demo.py on patched tree rc=%d' % r.returncode)
    meta['confirmed'] = (meta['demo_clean_rc'] == 0 and meta['apply_rc'] == 0 and meta['compile_rc'] == 0
                         and meta['suite_rc'] == 0 and meta['demo_patched_rc'] != 0)
finally:
    subprocess.run('git -C /repo worktree remove --force %s' % wt, shell=True)
    sh('find /repo/pym -name __pycache__ -prune -o -name "*.pyc" -delete')
print(json.dumps(meta, indent=1))
if meta['confirmed']:
    os.makedirs(out, exist_ok=True)
    for f in ('patch.diff', 'demo.py', 'notes.md'):
        if os.path.exists(os.path.join(src, f)): shutil.copy(os.path.join(src, f), out)
    notes = open(os.path.join(src, 'notes.md')).read() if os.path.exists(os.path.join(src, 'notes.md')) else ''
    meta['needs_to_manifest'] = notes[:1500]
    meta['base_commit'] = subprocess.check_output('git -C /repo rev-parse --short HEAD', shell=True, text=True).strip()
    json.dump(meta, open(os.path.join(out, 'meta.json'), 'w'), indent=1)
sys.exit(0 if meta['confirmed'] else 1)
