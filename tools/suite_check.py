#!/venv/bin/python
"""Run the pinned test-suite in a tree (default /repo) and compare with BASELINE.json.

usage: suite_check.py [TREE] [-k EXPR] [-n JOBS]
Exit 0 iff every stable_pass test of the baseline passes (restricted by -k to the selected subset).
"""
import sys, os, json, subprocess, tempfile, xml.etree.ElementTree as ET, argparse
ap = argparse.ArgumentParser()
ap.add_argument('tree', nargs='?', default='/repo')
ap.add_argument('-k', default=None)
ap.add_argument('-n', default='8')
a = ap.parse_args()
tree = os.path.abspath(a.tree)
base = json.load(open('/root/.vp/BASELINE.json'))
stable = set(base['stable_pass'])
fd, xmlf = tempfile.mkstemp(suffix='.xml'); os.close(fd)
env = dict(os.environ, PYTHONPATH=os.path.join(tree, 'pym'))
cmd = ['/venv/bin/python', '-m', 'pytest', '-q', '-p', 'no:cacheprovider', '--timeout=900',
       '--continue-on-collection-errors', '--junitxml=' + xmlf, '-n', a.n]
if a.k: cmd += ['-k', a.k]
r = subprocess.run(cmd, cwd=tree, env=env, stdout=subprocess.PIPE, stderr=subprocess.STDOUT, text=True)
passed = set(); seen = set()
for tc in ET.parse(xmlf).getroot().iter('testcase'):
    name = tc.get('classname') + '::' + tc.get('name')
    seen.add(name)
    if not any(c.tag in ('failure', 'error', 'skipped') for c in tc):
        passed.add(name)
os.unlink(xmlf)
want = stable & seen if a.k else stable
missing = sorted(want - passed)
print(f"tree={tree} selected={len(seen)} passed={len(passed)} stable_expected={len(want)} stable_missing={len(missing)}")
for m in missing: print("  NOT PASSING:", m)
sys.exit(1 if missing else 0)
