#!/usr/bin/env python3
"""Generate MANIFEST.json from the table below (keeps it valid at all times)."""
import json, os, sys
HERE = os.path.dirname(os.path.dirname(os.path.abspath(__file__)))
props = [json.loads(l) for l in open(os.path.join(HERE, 'properties.jsonl'))]
ids = [p['id'] for p in props]

CHECKS = {}
def add(pid, engine, technique, text, note, design_ref, category='model_checking', thorough=True):
    c = dict(property_id=pid, quick_cmd='./check %s --tier quick' % pid,
             evidence_file='/verif/evidence/%s.json' % pid,
             replay_cmd_template='./check %s --replay {path}' % pid,
             engine=engine, technique=technique,
             level_claimed=dict(category=category, text=text, design_ref=design_ref), level_note=note)
    if thorough: c['thorough_cmd'] = './check %s --tier thorough' % pid
    CHECKS[pid] = c

exec(open(os.path.join(HERE, 'tools', 'manifest_table.py')).read())

NA_REASON = {}
m = dict(
    version=1,
    setup_cmd='./tools/setup.sh',
    hooks=dict(guard='BOB_VERIF', enable='no source hooks: checks import /repo/pym from the working tree and interpose from the harness side (module-namespace proxies, wrapper script); nothing to build',
               baseline_off_cmd='cd /repo && /venv/bin/python -m pytest -ra -q -p no:cacheprovider --timeout=900 --continue-on-collection-errors',
               source_commits=[], add_only=True),
    engines=ENGINES,
    checks=[CHECKS[i] for i in ids if i in CHECKS],
    not_applicable=[dict(property_id=i, reason=NOT_YET.get(i, 'check not built yet (see DESIGN.md section 5 for the plan); not claimed')) for i in ids if i not in CHECKS],
    notes='All checks are bounded-exhaustive explorations run on the real code imported from /repo working tree. known_findings.json lists genuine defects (fixed ones with their fix: commit). See DESIGN.md.')
json.dump(m, open(os.path.join(HERE, 'MANIFEST.json'), 'w'), indent=1)
print('checks:', [c['property_id'] for c in m['checks']])
