#!/bin/bash
# usage: sweep_seeds.sh [--inrepo] [seed ...]   - run the owning check (and known cross-detecting checks) against every seeded change
MODE=""; [ "$1" = "--inrepo" ] && { MODE="--inrepo"; shift; }
cd /verif
SEEDS="$@"; [ -z "$SEEDS" ] && SEEDS=$(ls seeded)
declare -A EXTRA=( [C01-m1]="C05" [C16-m1]="C05" [C18-m1]="C04" )
for s in $SEEDS; do
  p=${s%%-*}
  for c in $p ${EXTRA[$s]}; do
    tools/seed_run.py $s --check $c $MODE 2>&1 | grep SEED-RESULT
  done
done
