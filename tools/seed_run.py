#!/venv/bin/python
"""Run a check against a seeded change.

usage: seed_run.py <seedid> [--tier quick] [--inrepo] [--check PID] [--opt k=v ...]
Default: applies the patch to a scratch worktree and points the check at it with VERIF_REPO
(development speed, parallel). --inrepo: git -C /repo apply, run, git -C /repo checkout -- .
(the way the brief describes; serialised by a lock).
"""
import sys, os, subprocess, json, argparse, fcntl, time
ap = argparse.ArgumentParser()
ap.add_argument('seed'); ap.add_argument('--tier', default='quick'); ap.add_argument('--inrepo', action='store_true')
ap.add_argument('--check', default=None); ap.add_argument('--opt', action='append', default=[])
a = ap.parse_args()
d = os.path.join('/verif/seeded', a.seed)
meta = json.load(open(os.path.join(d, 'meta.json')))
pid = a.check or meta['property']
cmd = ['./check', pid, '--tier', a.tier] + sum((['--opt', o] for o in a.opt), [])
t0 = time.time()
if a.inrepo:
    lk = open('/tmp/verif-repo.lock', 'w'); fcntl.flock(lk, fcntl.LOCK_EX)
    assert subprocess.run('git -C /repo diff --quiet', shell=True).returncode == 0, '/repo not clean'
    subprocess.run(['git', '-C', '/repo', 'apply', os.path.join(d, 'patch.diff')], check=True)
    try:
        r = subprocess.run(cmd, cwd='/verif', stdout=subprocess.PIPE, stderr=subprocess.STDOUT, text=True)
    finally:
        subprocess.run('git -C /repo checkout -- . && git -C /repo diff --quiet', shell=True, check=True)
else:
    wt = '/tmp/seedrun-%s-%d' % (a.seed, os.getpid())
    subprocess.run('git -C /repo worktree add -q --detach %s HEAD && git -C %s apply %s/patch.diff' % (wt, wt, d), shell=True, check=True)
    try:
        r = subprocess.run(cmd, cwd='/verif', env=dict(os.environ, VERIF_REPO=wt, VERIF_EVIDENCE_DIR='/tmp/seedrun-evidence'),
                           stdout=subprocess.PIPE, stderr=subprocess.STDOUT, text=True)
    finally:
        subprocess.run('git -C /repo worktree remove --force %s' % wt, shell=True)
lines = r.stdout.strip().splitlines()
viol = [l for l in lines if l.startswith('VIOLATION')]
print('\n'.join(lines[-12:]))
res = dict(seed=a.seed, check=pid, tier=a.tier, rc=r.returncode, violations=len(viol), wall_s=round(time.time() - t0, 1),
           detected=bool(r.returncode == 1 and viol), mode='inrepo' if a.inrepo else 'worktree', detail=[l for l in lines if l.startswith('  key=')][:5])
print('SEED-RESULT', json.dumps(res))
results = os.path.join(d, 'results.json')
allr = json.load(open(results)) if os.path.exists(results) else []
allr = [x for x in allr if not (x['check'] == pid and x['tier'] == a.tier and x['mode'] == res['mode'])] + [res]
json.dump(allr, open(results, 'w'), indent=1)
