#!/usr/bin/env python3
"""Print the markdown table of seeded changes and the checks that catch them (from seeded/*/meta.json, results.json)."""
import json, os, glob, re
rows = []
for d in sorted(glob.glob('/verif/seeded/*/')):
    sid = os.path.basename(d.rstrip('/'))
    meta = json.load(open(d + 'meta.json'))
    res = json.load(open(d + 'results.json')) if os.path.exists(d + 'results.json') else []
    title = meta.get('needs_to_manifest', '').splitlines()[0].lstrip('# ').strip() if meta.get('needs_to_manifest') else ''
    title = re.sub(r'^C\d\d\s*/\s*m\d\s*[-:]\s*', '', title)
    files = sorted({l.split(' b/')[-1].strip() for l in open(d + 'patch.diff') if l.startswith('diff --git')})
    det = []
    miss = []
    for r in res:
        tag = '%s %s (%s, %ds)' % (r['check'], r['tier'], r['mode'], r['wall_s'])
        (det if r['detected'] else miss).append(tag)
    rows.append((sid, title[:110], ', '.join(f.replace('pym/bob/', '') for f in files), '; '.join(det) or '-', '; '.join(miss) or ''))
print('| seed | change (site) | files | detected by | run but silent |')
print('| --- | --- | --- | --- | --- |')
for r in rows: print('| ' + ' | '.join(x.replace('|', '/') for x in r) + ' |')
