#!/bin/bash
# confirm every seed under /tmp/mut/out that is not yet in /verif/seeded (sequentially)
for d in /tmp/mut/out/C*/m*; do
  p=$(basename $(dirname $d)); m=$(basename $d); s=$p-$m
  [ -f $d/patch.diff ] || continue
  [ -f /verif/seeded/$s/meta.json ] && continue
  [ -f /tmp/mut/confirm-$s.log ] && grep -q '"confirmed": false' /tmp/mut/confirm-$s.log && [ -z "$FORCE" ] && continue
  /verif/tools/seed_confirm.py $s $p $d > /tmp/mut/confirm-$s.log 2>&1
done
