ENGINES = [
 dict(name='E5', path='mc/props', serves_properties=['C17'], kind_free_text='bounded-exhaustive input enumeration against a reference model (explicit enumeration of every input of a grammar up to a size bound; all run on the real functions)'),
]
NOT_YET = {}
add('C17', 'E5', 'bounded-exhaustive enumeration of expression trees / raw strings / condition trees against a tree-level reference evaluator',
    'Every substitution tree up to nesting depth 2 (quick) / 3 (thorough) from the documented grammar x 9 environments x nounset on/off is evaluated by the real Env.substitute and compared with a reference evaluator working on the tree; every raw string up to length 5/6 over the 13 meta characters must give str or ParseError; every string up to length 3/4 over 15 characters must survive each documented quoting form in 5 contexts; every IfExpression tree up to depth 2/3 (operands thinned to one representative per behaviour class) must equal the reference, equal its function-call form and give ParseError when ill-typed. A coverage statement within these bounds, not a proof beyond them.',
    'Reference semantics are my reading of doc/manual/configuration.rst and doc/manpages/bobpaths.rst; Python re trusted; undocumented corners (white space around boolean words, empty $(subst) pattern) are not compared.',
    'DESIGN.md 5/C17')
