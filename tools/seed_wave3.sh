#!/bin/bash
# usage: seed_wave3.sh <property> <seedid>   confirm a sub-agent's change from /tmp/w3-out/<property>, run the property's quick check against it, drop the agent's worktree
p=$1; s=$2
/verif/tools/seed_confirm.py $s $p /tmp/w3-out/$p > /tmp/w3-confirm-$s.log 2>&1; rc=$?
echo "confirm $s rc=$rc"
git -C /repo worktree remove --force /tmp/w3-$p 2>/dev/null
[ $rc = 0 ] || exit 1
/verif/tools/seed_run.py $s > /tmp/w3-run-$s.log 2>&1
grep SEED-RESULT /tmp/w3-run-$s.log | cut -c1-600
