#!/usr/bin/env python3
"""Markdown table of the numbers in evidence/*.json (states / transitions / non-trivial / wall)."""
import json, glob, os
print('| id | tier | states | transitions | traces on impl | non-trivial | exhaustive | wall |')
print('| --- | --- | --- | --- | --- | --- | --- | --- |')
for f in sorted(glob.glob('/verif/evidence/C*.json')):
    e = json.load(open(f)); c = e['coverage']
    print('| %s | %s | %s | %s | %s | %s | %s | %d s |' % (e['property_id'], e['tier'], c.get('states'), c.get('transitions'), c.get('traces_validated_against_impl'),
                                                      c.get('distinct_nontrivial'), c.get('exhaustive'), e['wall_s']))
