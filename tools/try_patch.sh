#!/bin/bash
# usage: try_patch.sh <patch.diff> <PID> [check args...]   - run a check against /repo HEAD + patch in a scratch worktree
P=$(readlink -f "$1"); PID=$2; shift 2
WT=/tmp/trywt-$$
git -C /repo worktree add -q --detach $WT HEAD || exit 2
git -C $WT apply "$P" || { git -C /repo worktree remove --force $WT; echo "PATCH DOES NOT APPLY"; exit 2; }
cd /verif && VERIF_REPO=$WT VERIF_EVIDENCE_DIR=/tmp/try-evidence ./check $PID "$@"
rc=$?
git -C /repo worktree remove --force $WT
echo "try_patch rc=$rc"
exit $rc
