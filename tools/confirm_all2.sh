#!/bin/bash
# confirm wave-2 seeds (/tmp/mut/out2/Cxx/m1|m2 -> seeded/Cxx-m3|m4)
for d in /tmp/mut/out2/C*/m[12]; do
  p=$(basename $(dirname $d)); m=$(basename $d); k=$(( ${m#m} + 2 )); s=$p-m$k
  [ -f $d/patch.diff ] || continue
  [ -f /verif/seeded/$s/meta.json ] && continue
  /verif/tools/seed_confirm.py $s $p $d > /tmp/mut/confirm-$s.log 2>&1
done
